package c18

import (
	"fmt"
	"math"
	"math/rand"
	"os"
	"path/filepath"
	"reflect"
	"strconv"
	"strings"

	ucfg "github.com/elastic/go-ucfg"

	"verif/internal/harness"
	"verif/internal/model"
)

// ---------------------------------------------------------------------------
// value-sensitive validators (`required`, `nonzero`, `positive`) meeting the
// values they are sensitive to: the zeros (0, -0, 0.0), the empty string, the
// empty list, the empty object, null - next to small non-zero numbers and
// non-empty values as controls. A typed field decides the Go type of what is
// validated; an interface{} field holds whatever the front-end delivered (the
// integer 0 is an int64 for YAML and a float64 for JSON / HJSON, -0 is the int
// 0 for YAML and the float -0 for the others). The document is the same, so
// the verdict has to be the same: all six loads accept or all six refuse, and
// where they accept they hold the same data. Nothing is compared with an
// expectation here - what `required` makes of a false or `positive` of a
// string is not this property's business, only that it does not depend on the
// syntax the document was read in.

type sensValue struct {
	class string
	vals  []func() *model.Node
	typed []reflect.Type // typed targets matching the class
}

func sv(class string, typed []reflect.Type, vals ...func() *model.Node) sensValue {
	return sensValue{class: class, vals: vals, typed: typed}
}

func nVal(v interface{}) func() *model.Node { return func() *model.Node { return model.P(v) } }

var (
	tInt8x    = reflect.TypeOf(int8(0))
	tFloat32x = reflect.TypeOf(float32(0))
	tIfaceSl  = reflect.SliceOf(tIface)
	tIfaceMap = reflect.MapOf(tString, tIface)

	sensNumberTargets = []reflect.Type{tInt64, tInt, tInt8x, tUint64, tUint, tFloat64, tFloat32x}
	sensStringTargets = []reflect.Type{tString}
	sensListTargets   = []reflect.Type{tIfaceSl, reflect.SliceOf(tInt64), reflect.SliceOf(tFloat64), reflect.SliceOf(tString)}
	sensObjectTargets = []reflect.Type{tIfaceMap, reflect.MapOf(tString, tInt64), reflect.MapOf(tString, tFloat64)}
	sensBoolTargets   = []reflect.Type{tBool}
	sensAnyTargets    = []reflect.Type{tInt64, tUint64, tFloat64, tString, tBool, tIfaceSl, tIfaceMap}
)

var sensValues = []sensValue{
	// the integer literal 0: an int for YAML, a float64 for JSON / HJSON
	sv("zero-integer", sensNumberTargets, nVal(int64(0))),
	// 0.0 / 0e+00 / (one rendering in six) 0: a float for everybody unless printed as 0
	sv("zero-float", sensNumberTargets, nVal(0.0)),
	// -0: the int 0 for YAML, the float -0 for the others
	sv("negative-zero", sensNumberTargets, nVal(math.Copysign(0, -1))),
	sv("small-positive-number", sensNumberTargets, nVal(int64(1)), nVal(int64(2)), nVal(int64(7)), nVal(1.0), nVal(0.5), nVal(0.25), nVal(1e-7), nVal(1e-9), nVal(3.75)),
	sv("small-negative-number", sensNumberTargets, nVal(int64(-1)), nVal(int64(-2)), nVal(int64(-7)), nVal(-1.0), nVal(-0.5), nVal(-0.25), nVal(-1e-7), nVal(-1e-9), nVal(-3.75)),
	sv("empty-string", sensStringTargets, nVal("")),
	sv("non-empty-string", sensStringTargets, nVal("x"), nVal("0"), nVal(" "), nVal("-1"), nVal("0.0"), nVal("false"), nVal("null"), nVal("[]")),
	sv("empty-list", sensListTargets, func() *model.Node { return model.List() }),
	sv("list-of-zeros", sensListTargets, nList(int64(0)), nList(0.0), nList(int64(0), int64(0)), nList(math.Copysign(0, -1))),
	sv("non-empty-list", sensListTargets, nList(int64(1)), nList(int64(1), int64(2)), nList(0.5), nList(int64(-1))),
	sv("empty-object", sensObjectTargets, func() *model.Node { return model.Dict() }),
	sv("object-of-zeros", sensObjectTargets, nObj("a", int64(0)), nObj("a", 0.0), nObj("b", math.Copysign(0, -1))),
	sv("non-empty-object", sensObjectTargets, nObj("a", int64(1)), nObj("b", -0.5), nObj("a", int64(-3))),
	sv("null", sensAnyTargets, func() *model.Node { return model.Nil() }),
	sv("boolean", sensBoolTargets, nVal(false), nVal(true)),
}

var sensValidators = []string{"required", "nonzero", "positive"}

// kindName names a target type for signatures: "interface{}", "int64",
// "*float64", "[]interface{}", "map[string]int64" ...
func kindName(t reflect.Type) string { return strings.ReplaceAll(t.String(), " ", "") }

func validatorPhase(res *harness.R, r *rand.Rand, dir, stem string, verbose bool) {
	cb := combos[r.Intn(len(combos))]
	doc := model.Dict()
	type entry struct {
		key       string
		class     string // value class
		validator string
		target    reflect.Type // type of the validated field
		role      string       // "interface", "typed", "pointer", "pointer-to-interface", "foreign-typed"
		nested    bool         // the field sits in a struct below the key "grp<i>"
		t         reflect.Type // the struct handed to Unpack
		shown     *model.Node
	}
	var entries []entry
	n := 5 + r.Intn(4)
	for i := 0; i < n; i++ {
		key := "q" + strconv.Itoa(i)
		// half of the settings carry one of the values the validators turn on
		var vc sensValue
		if r.Intn(2) == 0 {
			vc = sensValues[r.Intn(3)] // a zero number
		} else {
			vc = sensValues[r.Intn(len(sensValues))]
		}
		val := vc.vals[r.Intn(len(vc.vals))]()
		e := entry{key: key, class: vc.class, validator: sensValidators[r.Intn(len(sensValidators))], shown: val}
		switch x := r.Intn(20); {
		case x < 9:
			e.target, e.role = tIface, "interface"
		case x < 14:
			e.target, e.role = vc.typed[r.Intn(len(vc.typed))], "typed"
		case x < 17:
			e.target, e.role = reflect.PtrTo(vc.typed[r.Intn(len(vc.typed))]), "pointer"
		case x < 19:
			e.target, e.role = reflect.PtrTo(tIface), "pointer-to-interface"
		default:
			e.target, e.role = sensAnyTargets[r.Intn(len(sensAnyTargets))], "foreign-typed"
		}
		field := reflect.StructField{Name: "F", Type: e.target, Tag: reflect.StructTag(`config:"` + key + `" validate:"` + e.validator + `"`)}
		if r.Intn(4) == 0 {
			// one object down: {"grp<i>": {"q<i>": value}} into struct{G struct{F T}}
			e.nested = true
			gk := "grp" + strconv.Itoa(i)
			doc.D[gk] = model.Dict().Set(key, val)
			inner := reflect.StructOf([]reflect.StructField{field})
			e.t = reflect.StructOf([]reflect.StructField{{Name: "G", Type: inner, Tag: reflect.StructTag(`config:"` + gk + `"`)}})
		} else {
			doc.D[key] = val
			e.t = reflect.StructOf([]reflect.StructField{field})
		}
		entries = append(entries, e)
	}
	// with VarExp: a validated interface{} / typed field whose setting stands for
	// a number or string of the document
	if cb.varExp {
		for i, e := range append([]entry{}, entries...) {
			if e.nested || r.Intn(2) == 0 {
				continue
			}
			if !strings.Contains(e.class, "number") && !strings.Contains(e.class, "zero-") && !strings.Contains(e.class, "-zero") && !strings.HasSuffix(e.class, "string") {
				continue
			}
			if strings.Contains(e.class, "list") || strings.Contains(e.class, "object") {
				continue
			}
			key := "w" + strconv.Itoa(i)
			doc.D[key] = model.P("${" + e.key + "}")
			re := entry{key: key, class: "reference-to-" + e.class, validator: sensValidators[r.Intn(len(sensValidators))], target: tIface, role: "interface", shown: doc.D[key]}
			if r.Intn(3) == 0 {
				re.target, re.role = e.target, e.role
			}
			re.t = reflect.StructOf([]reflect.StructField{{Name: "F", Type: re.target, Tag: reflect.StructTag(`config:"` + key + `" validate:"` + re.validator + `"`)}})
			entries = append(entries, re)
		}
	}
	text := render(r, res, doc)
	if why := prefilter(text, doc); why != "" {
		res.Ev("prefilter_rejected_validator_document", 1)
		reason, _, _ := strings.Cut(why, "|")
		res.SetAdd("prefilter_reason", reason)
		return
	}
	res.Ev("validator_documents", 1)
	ctxBase := fmt.Sprintf("options=%s document=%q", cb.name, clip(string(text)))
	if verbose {
		fmt.Println("value-sensitive validators:", ctxBase)
	}

	var out [2][3][]string // [file|memory][loader][entry]: "error" or "ok <rendering>"
	var errs [2][3][]error
	for i, l := range loaders {
		l := l
		p := filepath.Join(dir, "vld-"+stem+"."+l.ext)
		if err := os.WriteFile(p, text, 0o644); err != nil {
			res.Inconc("cannot write %s: %v", p, err)
			return
		}
		for k, fromFile := range []bool{true, false} {
			who := l.name + ".NewConfig"
			fn := func() (*ucfg.Config, error) { return l.mem(text, cb.opts...) }
			if fromFile {
				who = l.name + ".NewConfigWithFile"
				fn = func() (*ucfg.Config, error) { return l.file(p, cb.opts...) }
			}
			c, err, ok := load(res, who, fn, ctxBase)
			if !ok {
				return
			}
			if err != nil || c == nil {
				res.Violate("loader-error:"+l.name, "%s returned (%v, %v); %s", who, c, err, ctxBase)
				return
			}
			for _, e := range entries {
				pv := reflect.New(e.t)
				var uerr error
				panicked, pval, where := harness.Safe(func() { uerr = c.Unpack(pv.Interface(), cb.opts...) })
				res.Eval(1)
				if panicked {
					res.Violate("panic:Unpack", "%s: panic %q at %s unpacking %q into %v; %s", who, pval, where, e.key, e.t, ctxBase)
					return
				}
				s := "error"
				if uerr == nil {
					var b strings.Builder
					renderTyped(&b, pv.Elem().Field(0))
					s = "ok " + b.String()
				}
				out[k][i] = append(out[k][i], s)
				errs[k][i] = append(errs[k][i], uerr)
			}
		}
	}
	for ei, e := range entries {
		tname := kindName(e.target)
		res.Ev("validator_settings", 1)
		res.Ev("validator_settings_on_"+e.role+"_field", 1)
		res.SetAdd("validator_pairing", e.validator+" on "+tname+" meets "+e.class)
		if e.role == "interface" || e.role == "pointer-to-interface" {
			switch e.class {
			case "zero-integer", "zero-float", "negative-zero":
				res.Ev("validator_zero_number_on_interface_field:"+e.validator, 1)
			}
		}
		y, j, h := out[1][0][ei], out[1][1][ei], out[1][2][ei]
		if strings.HasPrefix(y, "ok") {
			res.Ev("validator_settings_accepted_by_yaml", 1)
			res.SetAdd("validator_verdict", e.validator+" accepts "+e.class)
		} else {
			res.Ev("validator_settings_refused_by_yaml", 1)
			res.SetAdd("validator_verdict", e.validator+" refuses "+e.class)
		}
		detail := fmt.Sprintf("setting %q = %s into %v `validate:%q`: yaml %s (%v) | json %s (%v) | hjson %s (%v)", e.key, e.shown, e.target, e.validator, y, errs[1][0][ei], j, errs[1][1][ei], h, errs[1][2][ei])
		if y != j || j != h {
			what := "data"
			if strings.HasPrefix(y, "error") != strings.HasPrefix(j, "error") || strings.HasPrefix(j, "error") != strings.HasPrefix(h, "error") {
				what = "verdict"
			}
			// signature class: validator, kind of the field and value class - not
			// whether the field is reached through a pointer nor whether the
			// value got there through a pure reference
			res.Violate("frontends-disagree:value-sensitive-validator:"+e.validator+"-on-"+strings.TrimPrefix(tname, "*")+"-field:"+strings.TrimPrefix(e.class, "reference-to-")+":"+what, "%s; %s", detail, ctxBase)
		}
		for i, l := range loaders {
			if out[0][i][ei] != out[1][i][ei] {
				res.Violate("withfile-differs-from-memory:"+l.name+":value-sensitive-validator", "setting %q = %s into %v `validate:%q`: file %s (%v), memory %s (%v); %s", e.key, e.shown, e.target, e.validator, out[0][i][ei], errs[0][i][ei], out[1][i][ei], errs[1][i][ei], ctxBase)
			}
		}
	}
}
