package c18

import (
	"fmt"
	"math/rand"
	"os"
	"path/filepath"
	"reflect"
	"strings"
	"unsafe"

	ucfg "github.com/elastic/go-ucfg"

	"verif/internal/harness"
	"verif/internal/model"
	"verif/internal/obs"
)

// ---------------------------------------------------------------------------
// errors reported against the top-level config of a document whose top level
// has no named keys: {} , [] or a list. Whatever the shape of the document,
// a *WithFile loader has to attach the file name to the config it returns.

func topLevelPhase(res *harness.R, r *rand.Rand, tree *model.Node, hasDot bool, dir, stem string, verbose bool) {
	var doc *model.Node
	dotted := false // literal keys containing '.': no PathSep then
	nullDoc := false
	switch x := r.Intn(8); {
	case tree.HasA && x < 4:
		doc = tree.Copy() // the case's own document is a top-level list
		dotted = hasDot
	case x < 2:
		doc = model.Dict()
	case x == 2:
		doc = model.List()
	case x == 3 && r.Intn(2) == 0:
		// the document is the single word null: an empty configuration for the
		// front-ends whose decoder reads it
		nullDoc = true
		doc = model.Dict()
	default:
		// fresh generator state: no variables, no dotted keys
		g2 := &docGen{r: r, res: res}
		doc = model.List()
		for i, c := 0, 1+r.Intn(4); i < c; i++ {
			doc.A = append(doc.A, g2.node(r.Intn(3)))
		}
	}
	shapeName := "list"
	switch {
	case !doc.HasA:
		shapeName = "empty-object"
	case len(doc.A) == 0:
		shapeName = "empty-list"
	}
	if nullDoc {
		shapeName = "null-document"
	}
	pool := append(append([]string{}, plainKeys...), "a b", "ünï", "with-dash", "it's", "a:b", "zz_absent")
	key := pool[r.Intn(len(pool))]

	// the fault: always about the top-level config itself
	var t reflect.Type
	kind, path := "", ""
	getter := false
	switch r.Intn(5) {
	case 0:
		kind, path = "required-key-absent", key
		leaf := []reflect.Type{reflect.PtrTo(tString), reflect.PtrTo(tInt64), tString, reflect.SliceOf(tString)}[r.Intn(4)]
		t = reflect.StructOf([]reflect.StructField{{Name: "F", Type: leaf, Tag: reflect.StructTag(`config:"` + key + `" validate:"required"`)}})
	case 1:
		kind, path = "getter-key-absent", key
		getter = true
	case 2, 3:
		kind = "array-length"
		n := len(doc.A)
		m := n + 1 + r.Intn(2)
		if n > 0 && r.Intn(2) == 0 {
			m = r.Intn(n)
		}
		t = reflect.ArrayOf(m, tIface)
	default:
		kind = "struct-validate-fails"
		t = reflect.TypeOf(picky{})
	}
	class := kind + ":top-level-config:" + shapeName

	var skip [3]bool // front-ends whose raw decoder does not read the document
	var text []byte
	if nullDoc {
		class = "any-fault:top-level-config:null-document"
		text = []byte([]string{"null", "null\n", " null ", "\nnull\n"}[r.Intn(4)])
		for i, ok := range rawReadsNull(text) {
			if !ok {
				skip[i] = true
				res.Ev("null_document_not_read_by_raw_decoder_"+loaders[i].name, 1)
			}
		}
	} else {
		text = render(r, res, doc)
		if why := prefilter(text, doc); why != "" {
			res.Ev("prefilter_rejected_fault_document", 1)
			reason, _, _ := strings.Cut(why, "|")
			res.SetAdd("prefilter_reason", reason)
			return
		}
	}
	res.Ev("top_level_fault_documents", 1)
	res.SetAdd("top_level_fault", class)
	var known []string
	allPaths(doc, "", &known)

	cb := combos[r.Intn(len(combos))]
	for cb.pathSep && dotted {
		cb = combos[r.Intn(len(combos))]
	}
	how := "Unpack"
	if getter {
		how = "String getter"
	}
	ctx := fmt.Sprintf("fault=%s (reported against the top-level config) via %s key=%q target=%v options=%s document=%q", kind, how, key, t, cb.name, clip(string(text)))
	if verbose {
		fmt.Println("top-level fault:", ctx)
	}
	var fileOut, memOut [3]outcome
	var files [3]string
	for i, l := range loaders {
		l := l
		if skip[i] {
			continue
		}
		p := filepath.Join(dir, "top-"+stem+"."+l.ext)
		files[i] = p
		if err := os.WriteFile(p, text, 0o644); err != nil {
			res.Inconc("cannot write %s: %v", p, err)
			return
		}
		for k, fromFile := range []bool{true, false} {
			who := l.name + ".NewConfig"
			fn := func() (*ucfg.Config, error) { return l.mem(text, cb.opts...) }
			if fromFile {
				who = l.name + ".NewConfigWithFile"
				fn = func() (*ucfg.Config, error) { return l.file(p, cb.opts...) }
			}
			c, err, ok := load(res, who, fn, ctx)
			if !ok {
				continue
			}
			if err != nil || c == nil {
				res.Violate("loader-error:"+l.name, "%s returned (%v, %v) for a document without top-level keys; %s", who, c, err, ctx)
				continue
			}
			var uerr error
			panicked, pv, where := harness.Safe(func() {
				if getter {
					_, uerr = c.String(key, -1, cb.opts...)
				} else {
					uerr = c.Unpack(reflect.New(t).Interface(), cb.opts...)
				}
			})
			res.Eval(1)
			if panicked {
				res.Violate("panic:"+how, "%s: panic %q at %s; %s", who, pv, where, ctx)
				continue
			}
			if k == 0 {
				fileOut[i] = outcome{true, uerr}
			} else {
				memOut[i] = outcome{true, uerr}
			}
		}
	}
	faultVerdict(res, kind+"@top-level-config", class, path, known, fileOut, memOut, files, dir, ctx)
}

// ---------------------------------------------------------------------------
// the loaders do not touch their arguments, and a load does not influence a
// later one: one option slice with spare capacity is reused for a sequence of
// loads across the front-ends and their file / in-memory variants.

// word is the bit pattern of a func value (one pointer).
func word(o *ucfg.Option) unsafe.Pointer { return *(*unsafe.Pointer)(unsafe.Pointer(o)) }

func snapshot(full []ucfg.Option) []unsafe.Pointer {
	out := make([]unsafe.Pointer, len(full))
	for i := range full {
		out[i] = word(&full[i])
	}
	return out
}

// changed lists the slots of the backing array that differ from the snapshot.
func changed(full []ucfg.Option, snap []unsafe.Pointer, n int) string {
	var l []string
	for i := range full {
		if word(&full[i]) != snap[i] {
			where := "element"
			if i >= n {
				where = "spare slot"
			}
			l = append(l, fmt.Sprintf("%s %d", where, i))
		}
	}
	return strings.Join(l, ", ")
}

var absentT = reflect.StructOf([]reflect.StructField{{Name: "F", Type: reflect.PtrTo(tString), Tag: `config:"zz_absent" validate:"required"`}})

// seqObs is what one load of the sequence is compared by.
type seqObs struct {
	loadErr string
	data    string // generic and typed view (or that they failed)
	fault   string // text of the error for a required key no document has
}

func seqObserve(c *ucfg.Config, lerr error, tt reflect.Type, opts []ucfg.Option) (o seqObs) {
	if lerr != nil || c == nil {
		o.loadErr = fmt.Sprintf("load failed: %v (config %v)", lerr, c != nil)
		return
	}
	top, err := obs.Top(c, opts...)
	if err != nil {
		top = "generic unpack fails"
	}
	pv := reflect.New(tt)
	typed := ""
	if err := c.Unpack(pv.Interface(), opts...); err != nil {
		typed = "typed unpack fails"
	} else {
		var b strings.Builder
		renderTyped(&b, pv.Elem())
		typed = b.String()
	}
	o.data = top + " || " + typed
	if err := c.Unpack(reflect.New(absentT).Interface(), opts...); err != nil {
		o.fault = err.Error()
	} else {
		o.fault = "<no error>"
	}
	return
}

func sequencePhase(res *harness.R, r *rand.Rand, g *docGen, variants []variant, tt reflect.Type, dir string, verbose bool) {
	var cb combo
	for {
		cb = combos[r.Intn(len(combos))]
		if cb.pathSep && g.hasDot || len(cb.opts) == 0 && r.Intn(4) > 0 {
			continue
		}
		break
	}
	vr := variants[0]
	if cb.pathSep && len(variants) > 1 && r.Intn(3) > 0 {
		vr = variants[1] // with folded keys losing PathSep changes the data
	}
	// the option list: the combination's options, possibly between options
	// that only restate the defaults
	defaults := []ucfg.Option{ucfg.StructTag("config"), ucfg.ValidatorTag("validate")}
	var list []ucfg.Option
	for i, c := 0, r.Intn(3); i < c; i++ {
		list = append(list, defaults[r.Intn(2)])
	}
	list = append(list, cb.opts...)
	for i, c := 0, r.Intn(2); i < c; i++ {
		list = append(list, defaults[r.Intn(2)])
	}
	n := len(list)
	lone := func() []ucfg.Option { // a fresh list without spare capacity, as a literal gives
		f := make([]ucfg.Option, n)
		copy(f, list)
		return f
	}
	// the shared slice: same options, spare capacity behind them
	var shared []ucfg.Option
	style := ""
	switch r.Intn(3) {
	case 0:
		style = "make+sentinels"
		shared = make([]ucfg.Option, n, n+1+r.Intn(4))
		copy(shared, list)
		full := shared[:cap(shared)]
		for i := n; i < len(full); i++ {
			full[i] = ucfg.ValidatorTag(fmt.Sprintf("zz-sentinel-%d", i))
		}
	case 1:
		style = "make"
		shared = make([]ucfg.Option, n, n+1+r.Intn(4))
		copy(shared, list)
	default:
		style = "append"
		for _, o := range list {
			shared = append(shared, o)
		}
		if cap(shared) == len(shared) {
			// grow once more and drop the extra element again
			shared = append(shared, ucfg.ValidatorTag("zz-dropped"))[:n]
		}
	}
	full := shared[:cap(shared)]
	snap := snapshot(full)
	res.Ev("option_slice_sequences", 1)
	res.SetAdd("option_slice", fmt.Sprintf("%s len=%d cap=%d", style, n, cap(shared)))
	res.SetAdd("sequence_options", cb.name)

	type call struct {
		li       int
		fromFile bool
	}
	name := func(c call) string {
		if c.fromFile {
			return loaders[c.li].name + ".NewConfigWithFile"
		}
		return loaders[c.li].name + ".NewConfig"
	}
	do := func(c call, opts []ucfg.Option) (*ucfg.Config, error) {
		l := loaders[c.li]
		if c.fromFile {
			return l.file(vr.paths[l.name], opts...)
		}
		return l.mem(vr.text, opts...)
	}
	loneObs := map[call]seqObs{}
	var history []string
	ctxOf := func() string {
		return fmt.Sprintf("options=%s slice=%s len=%d cap=%d keys=%s calls so far with the same slice: %s; document=%q", cb.name, style, n, cap(shared), vr.label, strings.Join(history, " -> "), clip(string(vr.text)))
	}
	steps := 3 + r.Intn(4)
	for s := 0; s < steps; s++ {
		c := call{r.Intn(len(loaders)), r.Intn(2) == 0}
		if s == 0 && r.Intn(2) == 0 {
			c.fromFile = true
		}
		who := name(c)
		history = append(history, who)
		if s == 0 {
			res.SetAdd("sequence_first_call", who)
		}
		// the reference: the same load done alone with a fresh option list
		want, ok := loneObs[c]
		if !ok {
			panicked, pv, where := harness.Safe(func() {
				f := lone()
				cfg, err := do(c, f)
				want = seqObserve(cfg, err, tt, f)
			})
			res.Eval(4)
			if panicked {
				res.Violate("panic:"+who, "lone load: panic %q at %s; %s", pv, where, ctxOf())
				return
			}
			loneObs[c] = want
		}
		var cfg *ucfg.Config
		var lerr error
		panicked, pv, where := harness.Safe(func() { cfg, lerr = do(c, shared) })
		res.Eval(1)
		res.Ev("sequence_loads", 1)
		if panicked {
			res.Violate("panic:"+who, "panic %q at %s; %s", pv, where, ctxOf())
			return
		}
		if d := changed(full, snap, n); d != "" {
			sig := "loader-writes-into-caller-options:" + who
			if !strings.Contains(d, "element") {
				sig += ":spare-capacity-only"
			}
			res.Violate(sig, "after %s(..., opts...) the caller's option slice differs in %s (backing array compared up to cap, func values bit by bit); %s", who, d, ctxOf())
			snap = snapshot(full) // report every call once
		}
		var got seqObs
		panicked, pv, where = harness.Safe(func() { got = seqObserve(cfg, lerr, tt, shared) })
		res.Eval(4)
		if panicked {
			res.Violate("panic:Unpack", "%s: panic %q at %s; %s", who, pv, where, ctxOf())
			return
		}
		if d := changed(full, snap, n); d != "" {
			res.Violate("unpack-writes-into-caller-options", "after Unpack(..., opts...) on the config of %s the caller's option slice differs in %s; %s", who, d, ctxOf())
			snap = snapshot(full)
		}
		kind := "memory-load"
		if c.fromFile {
			kind = "file-load"
		}
		switch {
		case got.loadErr != want.loadErr:
			res.Violate("load-in-sequence-differs-from-lone-load:"+kind+":load-error", "%s as call %d of the sequence: %q, alone with a fresh option list: %q; %s", who, s+1, got.loadErr, want.loadErr, ctxOf())
		case got.data != want.data:
			res.Violate("load-in-sequence-differs-from-lone-load:"+kind+":data", "%s as call %d of the sequence unpacks to %s, alone with a fresh option list to %s; %s", who, s+1, got.data, want.data, ctxOf())
		case got.fault != want.fault:
			res.Violate("load-in-sequence-differs-from-lone-load:"+kind+":error-text", "%s as call %d of the sequence reports a missing required key as %q, alone with a fresh option list as %q; %s", who, s+1, got.fault, want.fault, ctxOf())
		}
		if s > 0 {
			res.Ev("sequence_loads_after_another_load", 1)
		}
	}
	if verbose {
		fmt.Println("sequence:", ctxOf())
	}
}
