package c18

import (
	"fmt"
	"math/rand"
	"os"
	"path/filepath"
	"strconv"
	"strings"

	ucfg "github.com/elastic/go-ucfg"

	"verif/internal/harness"
	"verif/internal/model"
)

// ---------------------------------------------------------------------------
// documents that are valid in all three syntaxes but that go-ucfg REFUSES to
// load under the given options: a setting spelled twice in one object (nested
// and dotted) under PathSep, a malformed expansion under VarExp. The refusal
// is an error about a setting of the file: the *WithFile loaders name the file
// in it, the in-memory loaders name none, and all six loads agree on refusing.
// Without the option the same bytes are plain data and load everywhere.

func refusedLoadPhase(res *harness.R, r *rand.Rand, dir, stem string, verbose bool) {
	g2 := &docGen{r: r, res: res}
	doc := g2.dict(1, r.Intn(3))
	// the object holding the offending setting(s): root, or below keys and
	// list elements
	var steps []step
	holder := doc
	for i, c := 0, r.Intn(4); i < c; i++ {
		k := []string{"x", "y", "srv", "out"}[r.Intn(4)] + strconv.Itoa(i)
		steps = append(steps, step{k, false})
		next := model.Dict()
		if r.Intn(3) == 0 {
			// through a list element
			l := model.List()
			pos := r.Intn(3)
			for j := 0; j < pos; j++ {
				l.A = append(l.A, g2.leaf(r.Intn(4)))
			}
			l.A = append(l.A, next)
			holder.D[k] = l
			steps = append(steps, step{strconv.Itoa(pos), true})
		} else {
			holder.D[k] = next
		}
		holder = next
	}
	prefix := ""
	if len(steps) > 0 {
		prefix = joinSteps(steps) + "."
	}
	prim := func() *model.Node { // never null: null and a second spelling unite
		switch r.Intn(4) {
		case 0:
			return model.P(int64(1 + r.Intn(99)))
		case 1:
			return model.P(r.Intn(2) == 0)
		case 2:
			return model.P(float64(r.Intn(100)) + 0.5)
		}
		return model.P([]string{"v", "text", "a b", "é"}[r.Intn(4)])
	}
	k := []string{"a", "dup", "cfg", "it"}[r.Intn(4)]
	sub := []string{"b", "port", "n"}[r.Intn(3)]
	kind := ""
	var guilty []string
	var cands []combo
	switch r.Intn(6) {
	case 0:
		kind = "primitive-and-dotted-child"
		holder.D[k] = prim()
		holder.D[k+"."+sub] = prim()
		guilty = []string{prefix + k, prefix + k + "." + sub}
	case 1:
		kind = "primitive-and-dotted-grandchild"
		holder.D[k] = prim()
		holder.D[k+"."+sub+".z"] = model.Dict().Set("q", prim())
		guilty = []string{prefix + k, prefix + k + "." + sub, prefix + k + "." + sub + ".z"}
	case 2:
		kind = "same-leaf-nested-and-dotted"
		holder.D[k] = model.Dict().Set(sub, prim()).Set("other", prim())
		holder.D[k+"."+sub] = prim()
		guilty = []string{prefix + k, prefix + k + "." + sub}
	case 3:
		kind = "same-leaf-two-levels-down"
		holder.D[k] = model.Dict().Set(sub, model.Dict().Set("z", prim()))
		if r.Intn(2) == 0 {
			holder.D[k+"."+sub+".z"] = prim()
		} else {
			holder.D[k+"."+sub] = model.Dict().Set("z", prim())
		}
		guilty = []string{prefix + k, prefix + k + "." + sub, prefix + k + "." + sub + ".z"}
	case 4:
		kind = "list-element-and-dotted-index"
		l := model.List(prim(), prim())
		i := r.Intn(2)
		holder.D[k] = l
		holder.D[k+"."+strconv.Itoa(i)] = prim()
		guilty = []string{prefix + k, prefix + k + "." + strconv.Itoa(i)}
	default:
		kind = "malformed-expansion"
		holder.D[k] = model.P([]string{"${abc", "pre ${a.b", "${x}-${", "${}", "a ${b:${c}"}[r.Intn(5)])
		guilty = []string{prefix + k}
	}
	// a load error is raised while the object is being built, before it is
	// attached to its parents: the path it names may be relative to that
	// object (how complete error paths are is C14's question, not pinned here)
	for _, gp := range append([]string{}, guilty...) {
		if prefix != "" {
			guilty = append(guilty, strings.TrimPrefix(gp, prefix))
		}
	}
	for _, cb := range combos {
		if kind == "malformed-expansion" && cb.varExp || kind != "malformed-expansion" && cb.pathSep {
			cands = append(cands, cb)
		}
	}
	cb := cands[r.Intn(len(cands))]
	class := "duplicate-setting"
	if kind == "malformed-expansion" {
		class = kind
	}

	text := render(r, res, doc)
	if why := prefilter(text, doc); why != "" {
		res.Ev("prefilter_rejected_fault_document", 1)
		return
	}
	res.Ev("refusable_documents", 1)
	res.SetAdd("refusable_document", fmt.Sprintf("%s depth=%d", kind, len(steps)))
	ctx := fmt.Sprintf("refusable document: %s in object %q, options=%s document=%q", kind, strings.TrimSuffix(prefix, "."), cb.name, clip(string(text)))
	if verbose {
		fmt.Println(ctx)
	}

	type loadOut struct {
		done bool
		c    *ucfg.Config
		err  error
	}
	var fileOut, memOut [3]loadOut
	var files [3]string
	sixLoads := func(opts []ucfg.Option) bool {
		for i, l := range loaders {
			l := l
			p := filepath.Join(dir, "refused-"+stem+"."+l.ext)
			files[i] = p
			if err := os.WriteFile(p, text, 0o644); err != nil {
				res.Inconc("cannot write %s: %v", p, err)
				return false
			}
			c, err, ok := load(res, l.name+".NewConfigWithFile", func() (*ucfg.Config, error) { return l.file(p, opts...) }, ctx)
			fileOut[i] = loadOut{ok, c, err}
			c, err, ok = load(res, l.name+".NewConfig", func() (*ucfg.Config, error) { return l.mem(text, opts...) }, ctx)
			memOut[i] = loadOut{ok, c, err}
		}
		return true
	}

	// control: without the option the bytes are plain data for everybody
	var control []ucfg.Option
	if kind == "malformed-expansion" && r.Intn(2) == 0 {
		control = []ucfg.Option{ucfg.PathSep(".")}
	}
	if !sixLoads(control) {
		return
	}
	for i, l := range loaders {
		for k, o := range []loadOut{fileOut[i], memOut[i]} {
			if o.done && (o.err != nil || o.c == nil) {
				who := l.name
				if k == 0 {
					who += "-withfile"
				}
				res.Violate("loader-error:"+who, "without the option that makes it collide the document is plain data, but the load returned (%v, %v); %s", o.c, o.err, ctx)
			}
		}
	}

	if !sixLoads(cb.opts) {
		return
	}
	refused, total := 0, 0
	for i := range loaders {
		for _, o := range []loadOut{fileOut[i], memOut[i]} {
			if o.done {
				total++
				if o.err != nil {
					refused++
				}
			}
		}
	}
	switch {
	case total == 0:
		return
	case refused == 0:
		// whether such a document has to be refused is not C18's business
		res.Ev("refusable_document_loaded_by_all", 1)
		res.SetAdd("refusable_document_loaded", kind)
		return
	case refused != total:
		var l []string
		for i, ld := range loaders {
			l = append(l, fmt.Sprintf("%s: file err=%v memory err=%v", ld.name, fileOut[i].err, memOut[i].err))
		}
		res.Violate("frontends-disagree:load-refused:"+class, "%d of %d loads refuse the document: %s; %s", refused, total, strings.Join(l, " | "), ctx)
		return
	}
	res.Ev("refused_documents", 1)
	var lacking []int
	nFile := 0
	for i, l := range loaders {
		if o := fileOut[i]; o.done {
			nFile++
			res.Ev("refused_file_loads_checked", 1)
			if o.c != nil {
				res.Violate("refused-load-returns-config:"+l.name+"-withfile", "error %v and a config; %s", o.err, ctx)
			}
			if !namesFile(o.err.Error(), files[i]) {
				lacking = append(lacking, i)
			}
			if msg := withoutFile(o.err.Error(), files[i]); !namesAny(msg, guilty) {
				res.Violate("load-error-lacks-path:"+l.name+"-withfile:"+class, "load error %q names none of the settings involved %q; %s", o.err.Error(), guilty, ctx)
			}
		}
		if o := memOut[i]; o.done {
			if o.c != nil {
				res.Violate("refused-load-returns-config:"+l.name, "error %v and a config; %s", o.err, ctx)
			}
			msg := o.err.Error()
			if namesFile(msg, files[i]) || strings.Contains(msg, dir) {
				res.Violate("memory-load-error-mentions-source:"+l.name, "%s.NewConfig: load error %q names a file although the bytes were passed in memory; %s", l.name, msg, ctx)
			}
			if !namesAny(msg, guilty) {
				res.Violate("load-error-lacks-path:"+l.name+":"+class, "load error %q names none of the settings involved %q; %s", msg, guilty, ctx)
			}
		}
	}
	for k, i := range lacking {
		who := loaders[i].name
		if len(lacking) == nFile && nFile > 1 {
			if k > 0 {
				continue
			}
			who = "all-loaders"
		}
		res.Violate("load-error-lacks-source:"+who+":"+class, "%s.NewConfigWithFile(%q) refuses the document with %q, which does not mention the file (%d of %d file loaders affected); %s",
			loaders[i].name, files[i], fileOut[i].err.Error(), len(lacking), nFile, ctx)
	}
}

func namesAny(msg string, paths []string) bool {
	for _, p := range paths {
		if namesToken(msg, p) {
			return true
		}
	}
	return false
}
