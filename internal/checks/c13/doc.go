// Package c13: see DESIGN.md section 3 C13.
package c13
