package c13

import (
	"reflect"

	ucfg "github.com/elastic/go-ucfg"

	"verif/internal/model"
)

// polCtx is the list policy in force at a point of the target type and where
// it comes from.
type polCtx struct {
	pol  string // default, append, prepend, replace, arr-replace
	src  string // none, global, tag, inherited-tag
	over string // src tag / inherited-tag: the policy the tag option overrides
}

// childOf: the policy for the fields below a field (the doc comment: the tag
// options replace, append and prepend overwrite the global strategy "for all
// sub-fields").
func (p polCtx) below() polCtx {
	if p.src == "tag" {
		return polCtx{p.pol, "inherited-tag", p.over}
	}
	return p
}

func (f *field) policy(parent polCtx) polCtx {
	switch f.tagPol {
	case "":
		return parent
	case "merge":
		return polCtx{"default", "tag", parent.pol}
	}
	return polCtx{f.tagPol, "tag", parent.pol}
}

// overridesOuter: a tag option is in force where another policy would be
// without it.
func (p polCtx) overridesOuter() bool {
	return (p.src == "tag" || p.src == "inherited-tag") && p.over != p.pol
}

var modelPolicies = map[string]model.Policy{
	"default":     model.PDefault,
	"append":      model.PAppend,
	"prepend":     model.PPrepend,
	"replace":     model.PReplace,
	"arr-replace": model.PArrReplace,
}

// mergeConfigTrees: what a *Config field holding pre (nil: the field is nil)
// holds after a setting is unpacked into it under pol -- the merge model of C01.
func mergeConfigTrees(pre, setting *model.Node, pol string) *model.Node {
	if pre == nil {
		return setting.Copy()
	}
	to := pre.Copy()
	model.Merge(to, setting.Copy(), nil, model.Global(modelPolicies[pol]))
	return to
}

func newConfig(n *model.Node) *ucfg.Config {
	c, err := ucfg.NewFrom(n.ToGo(), ucfg.PathSep("."))
	if err != nil {
		return nil
	}
	return c
}

func replaces(p polCtx) bool { return p.pol == "replace" || p.pol == "arr-replace" }

// modeler applies a configuration to a deep copy of the pre-filled value the
// way the statement of C13 says Unpack does.
type modeler struct {
	// cfgs: the trees the pre-filled *Config fields were built from (by pointer)
	cfgs map[uintptr]*model.Node
	// cfgExp: the tree every mentioned *Config field has to hold afterwards
	cfgExp map[*field]*model.Node
	// allocs counts, per pointee struct type, the nil inline pointers the
	// settings make this one Unpack call allocate (monitor only)
	allocs map[reflect.Type]int
}

func applyInit(v reflect.Value) {
	if v.CanAddr() {
		if i, ok := v.Addr().Interface().(initer); ok {
			i.InitDefaults()
		}
	}
}

func (m *modeler) applyStruct(st *stype, v reflect.Value, c *cval, pc polCtx) {
	if st.hasInit {
		applyInit(v)
	}
	for _, f := range st.fields {
		if f.unexported || f.ignore {
			continue
		}
		var cv *cval
		if c != nil && c.fields != nil {
			cv = c.fields[f]
		}
		m.applyField(f, v.Field(f.idx), cv, f.policy(pc))
	}
}

func (m *modeler) applyField(f *field, v reflect.Value, cv *cval, pc polCtx) {
	absent := cv.absent()
	switch f.kind {
	case kPrim:
		if absent {
			if f.hasInit {
				applyInit(v)
			}
			return
		}
		v.Set(cv.want)
	case kPtrPrim:
		if absent {
			return
		}
		p := reflect.New(f.prim)
		p.Elem().Set(cv.want)
		v.Set(p)
	case kStruct:
		// struct-typed fields are visited even without a setting (InitDefaults)
		if absent {
			cv = nil
		}
		m.applyStruct(f.sub, v, cv, pc.below())
	case kPtrStruct:
		if f.inline && !v.IsNil() {
			// a pre-filled inlined pointee is part of the enclosing struct: it
			// is visited like a struct held by value, mentioned or not
			if absent {
				cv = nil
			}
			m.applyStruct(f.sub, v.Elem(), cv, pc.below())
			return
		}
		if absent || f.inline && cv.real == 0 {
			// not allocated, InitDefaults not called (an inlined struct is
			// mentioned when one of its fields is)
			return
		}
		if v.IsNil() {
			v.Set(reflect.New(f.sub.typ))
			if f.inline && m.allocs != nil {
				m.allocs[f.sub.typ]++
			}
		}
		m.applyStruct(f.sub, v.Elem(), cv, pc.below())
	case kUntouched:
		// never mentioned
	case kSlicePrim, kSliceStruct:
		if absent {
			return
		}
		v.Set(m.mergeList(f, v, cv, pc.pol))
	case kArrayPrim:
		if absent {
			return
		}
		for i := 0; i < v.Len() && i < len(cv.list); i++ {
			v.Index(i).Set(cv.list[i].want)
		}
	case kArrayComp:
		if absent {
			return
		}
		// every element is a value of its own: what the setting at position i
		// mentions is merged into element i, the rest of the element stays
		for i := 0; i < v.Len() && i < len(cv.list); i++ {
			m.applyField(f.elem, v.Index(i), cv.list[i], pc)
		}
	case kConfig:
		if absent {
			return
		}
		var pre *model.Node
		if !v.IsNil() {
			pre = m.cfgs[v.Pointer()]
		}
		exp := mergeConfigTrees(pre, cv.node, pc.pol)
		if m.cfgExp != nil {
			m.cfgExp[f] = exp
		}
		if c := newConfig(exp); c != nil {
			v.Set(reflect.ValueOf(c))
		}
	case kMapPrim, kMapPtrStruct, kMapStruct:
		// a map type with InitDefaults (held by value in a struct): the defaults
		// are applied to the map the field holds -- or the new one -- before
		// the settings, also without a setting
		withInit := implementsPtr(f.typ, tIniter)
		if absent {
			if withInit {
				applyInit(v)
			}
			return
		}
		if v.IsNil() || pc.pol == "replace" {
			// replace: old dictionaries are replaced, the map holds the new
			// entries alone (arr-replace concerns lists only)
			v.Set(reflect.MakeMap(f.typ))
		}
		if withInit {
			applyInit(v)
		}
		for k, e := range cv.keys {
			key := reflect.ValueOf(k)
			switch f.kind {
			case kMapPrim:
				v.SetMapIndex(key, e.want)
			case kMapPtrStruct:
				old := v.MapIndex(key)
				if !old.IsValid() || old.IsNil() {
					old = reflect.New(f.sub.typ)
					v.SetMapIndex(key, old)
				}
				m.applyStruct(f.sub, old.Elem(), e, pc.below())
			default:
				n := reflect.New(f.sub.typ).Elem()
				if old := v.MapIndex(key); old.IsValid() {
					n.Set(old)
				}
				m.applyStruct(f.sub, n, e, pc.below())
				v.SetMapIndex(key, n)
			}
		}
	}
}

// mergeList combines the pre-filled list with the configured one under pol.
// It never modifies pre.
func (m *modeler) mergeList(f *field, pre reflect.Value, cv *cval, pol string) reflect.Value {
	n := len(cv.list)
	elem := func(i int, base reflect.Value) reflect.Value {
		if f.kind == kSlicePrim {
			return cv.list[i].want
		}
		p := reflect.New(f.sub.typ)
		e := p.Elem()
		if base = deref(base); base.IsValid() {
			e.Set(deepCopy(base)) // the elements may hold (inlined) pointers
		}
		(&modeler{allocs: m.allocs}).applyStruct(f.sub, e, cv.list[i], polCtx{"default", "none", ""})
		if f.elemPtr {
			return p
		}
		return e
	}
	pl := pre.Len()
	var out reflect.Value
	switch pol {
	case "append":
		out = reflect.MakeSlice(f.typ, pl+n, pl+n)
		reflect.Copy(out, pre)
		for i := 0; i < n; i++ {
			out.Index(pl + i).Set(elem(i, reflect.Value{}))
		}
	case "prepend":
		out = reflect.MakeSlice(f.typ, pl+n, pl+n)
		for i := 0; i < n; i++ {
			out.Index(i).Set(elem(i, reflect.Value{}))
		}
		reflect.Copy(out.Slice(n, pl+n), pre)
	case "replace", "arr-replace":
		out = reflect.MakeSlice(f.typ, n, n)
		for i := 0; i < n; i++ {
			out.Index(i).Set(elem(i, reflect.Value{}))
		}
	default:
		l := n
		if pl > l {
			l = pl
		}
		out = reflect.MakeSlice(f.typ, l, l)
		reflect.Copy(out, pre)
		for i := 0; i < n; i++ {
			var base reflect.Value
			if i < pl {
				base = pre.Index(i)
			}
			out.Index(i).Set(elem(i, base))
		}
	}
	return out
}
