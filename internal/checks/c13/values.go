package c13

import (
	"fmt"
	"math"
	"math/rand"
	"reflect"
	"regexp"
	"sort"
	"strconv"
	"strings"
	"time"

	ucfg "github.com/elastic/go-ucfg"

	"verif/internal/model"
	"verif/internal/obs"
)

var mapKeys = []string{"ka", "kb", "kc", "kd", "ke"}

// ---------------------------------------------------------------------------
// configuration trees

// cval is one setting of the generated configuration, addressed through the
// type description (so that inline fields can be placed in their parent's
// namespace when the tree is rendered).
type cval struct {
	null   bool
	raw    interface{}      // primitive / verbatim value
	want   reflect.Value    // the typed value a primitive setting must produce
	fields map[*field]*cval // object addressed to a struct
	list   []*cval          // list
	keys   map[string]*cval // object addressed to a map
	node   *model.Node      // tree addressed to a *Config field (never modified)
	real   int              // form fields: how many settings a field may read (nulls and noise not counted)
	form   string           // "prim", "fields", "list", "keys", "raw", "node"
}

func (c *cval) absent() bool { return c == nil || c.null }

func (c *cval) clone() *cval {
	if c == nil {
		return nil
	}
	n := *c
	if c.fields != nil {
		n.fields = make(map[*field]*cval, len(c.fields))
		for k, v := range c.fields {
			n.fields[k] = v.clone()
		}
	}
	if c.list != nil {
		n.list = make([]*cval, len(c.list))
		for i, v := range c.list {
			n.list[i] = v.clone()
		}
	}
	if c.keys != nil {
		n.keys = make(map[string]*cval, len(c.keys))
		for k, v := range c.keys {
			n.keys[k] = v.clone()
		}
	}
	return &n
}

func (c *cval) toGo() interface{} {
	switch {
	case c == nil || c.null:
		return nil
	case c.form == "fields":
		return fieldsToGo(c.fields)
	case c.form == "list":
		l := make([]interface{}, len(c.list))
		for i, e := range c.list {
			l[i] = e.toGo()
		}
		return l
	case c.form == "keys":
		m := make(map[string]interface{}, len(c.keys))
		for k, e := range c.keys {
			m[k] = e.toGo()
		}
		return m
	case c.form == "node":
		return c.node.ToGo()
	}
	return c.raw
}

func fieldsToGo(fs map[*field]*cval) map[string]interface{} {
	m := map[string]interface{}{}
	for f, v := range fs {
		if f.inline {
			if v != nil {
				for k, e := range fieldsToGo(v.fields) {
					m[k] = e
				}
			}
			continue
		}
		m[f.name] = v.toGo()
	}
	return m
}

// renderGo prints configuration data deterministically.
func renderGo(v interface{}) string {
	switch x := v.(type) {
	case nil:
		return "null"
	case map[string]interface{}:
		keys := make([]string, 0, len(x))
		for k := range x {
			keys = append(keys, k)
		}
		sort.Strings(keys)
		var b strings.Builder
		b.WriteByte('{')
		for i, k := range keys {
			if i > 0 {
				b.WriteString(", ")
			}
			b.WriteString(k + ": " + renderGo(x[k]))
		}
		b.WriteByte('}')
		return b.String()
	case []interface{}:
		var b strings.Builder
		b.WriteByte('[')
		for i, e := range x {
			if i > 0 {
				b.WriteString(", ")
			}
			b.WriteString(renderGo(e))
		}
		b.WriteByte(']')
		return b.String()
	case string:
		return strconv.Quote(x)
	}
	return fmt.Sprintf("%T(%v)", v, v)
}

// ---------------------------------------------------------------------------
// random values

type vgen struct {
	r *rand.Rand
	// cfgs: the tree every pre-filled *Config was built from, by pointer
	cfgs map[uintptr]*model.Node
}

// ---------------------------------------------------------------------------
// trees for *Config fields: small key pool (overlaps and type changes at the
// same key are common), no nulls, no empty containers

var cfgKeys = []string{"a", "b", "c", "d"}

func (g *vgen) cfgPrim() *model.Node {
	r := g.r
	switch r.Intn(4) {
	case 0:
		return model.P(int64(r.Intn(50)))
	case 1:
		return model.P(r.Intn(2) == 0)
	}
	return model.P(word(r))
}

func (g *vgen) cfgList(depth int) *model.Node {
	r := g.r
	n := model.List()
	dicts := depth > 0 && r.Intn(4) == 0
	for i, c := 0, 1+r.Intn(4); i < c; i++ {
		if dicts {
			n.A = append(n.A, g.cfgDict(depth-1))
		} else {
			n.A = append(n.A, g.cfgPrim())
		}
	}
	return n
}

func (g *vgen) cfgDict(depth int) *model.Node {
	r := g.r
	n := model.Dict()
	for len(n.D) == 0 {
		for _, k := range cfgKeys {
			if r.Intn(2) == 0 {
				continue
			}
			switch x := r.Intn(10); {
			case x < 4 || depth <= 0 && (x < 6 || x >= 8):
				n.D[k] = g.cfgPrim()
			case x < 8:
				n.D[k] = g.cfgList(depth - 1)
			default:
				n.D[k] = g.cfgDict(depth - 1)
			}
		}
	}
	return n
}

// cfgTree draws the contents of a *Config: an object (3 in 4) or a list.
func (g *vgen) cfgTree(list bool) *model.Node {
	if list {
		return g.cfgList(1)
	}
	return g.cfgDict(2)
}

func intBounds(t reflect.Type) (int64, int64) {
	switch t.Kind() {
	case reflect.Int8:
		return math.MinInt8, math.MaxInt8
	case reflect.Int16:
		return math.MinInt16, math.MaxInt16
	case reflect.Int32:
		return math.MinInt32, math.MaxInt32
	}
	return math.MinInt64, math.MaxInt64
}

func uintMax(t reflect.Type) uint64 {
	switch t.Kind() {
	case reflect.Uint8:
		return math.MaxUint8
	case reflect.Uint16:
		return math.MaxUint16
	case reflect.Uint32:
		return math.MaxUint32
	}
	return math.MaxUint64
}

// prim draws a (mostly non-zero) value of primitive type t.
func (g *vgen) prim(t reflect.Type, h hint) reflect.Value {
	r := g.r
	v := reflect.New(t).Elem()
	switch family(t) {
	case "bool":
		v.SetBool(r.Intn(4) > 0)
	case "string":
		s := word(r)
		if r.Intn(4) == 0 {
			s += strconv.Itoa(r.Intn(1000))
		}
		v.SetString(s)
	case "int":
		lo, hi := intBounds(t)
		switch {
		case h.has:
			v.SetInt(h.lo + r.Int63n(h.hi-h.lo+1))
		case r.Intn(8) == 0:
			v.SetInt([]int64{lo, hi, hi - 1, lo + 1}[r.Intn(4)])
		default:
			v.SetInt(int64(1 + r.Intn(100)))
			if r.Intn(3) == 0 {
				v.SetInt(-v.Int())
			}
		}
	case "uint":
		switch {
		case h.has:
			v.SetUint(uint64(h.lo + r.Int63n(h.hi-h.lo+1)))
		case r.Intn(8) == 0:
			v.SetUint(uintMax(t) - uint64(r.Intn(2)))
		default:
			v.SetUint(uint64(1 + r.Intn(200)))
		}
	case "float":
		switch {
		case h.has:
			v.SetFloat(float64(h.lo+r.Int63n(h.hi-h.lo)) + float64(r.Intn(4))/4)
		case t == tFloat64 && r.Intn(8) == 0:
			v.SetFloat([]float64{0.1, 1e100, -2.5e-7, 1.0 / 3}[r.Intn(4)])
		default:
			v.SetFloat(float64(r.Intn(8000)-4000)/4 + 0.25)
		}
	case "duration":
		switch {
		case h.has:
			v.SetInt((h.lo + r.Int63n(h.hi-h.lo+1)) * int64(time.Second))
		default:
			v.SetInt(int64(1+r.Intn(5000)) * int64([]time.Duration{time.Millisecond, time.Second, time.Minute}[r.Intn(3)]))
		}
	case "regexp":
		v.Set(reflect.ValueOf(*regexp.MustCompile(patterns[r.Intn(len(patterns))])))
	}
	return v
}

var patterns = []string{"abc", "^a.*b$", "[0-9]+", "(x|y)z", `\d{2}`, "\u00e9+", "a", "^$"}

// rxString reads the expression of a regexp.Regexp held by value.
func rxString(v reflect.Value) string {
	if v.CanInterface() {
		rx := v.Interface().(regexp.Regexp)
		return rx.String()
	}
	return v.FieldByName("expr").String()
}

var durationStrings = []string{"1s", "1m30s", "250ms", "2h45m", "-3s", "1.5h", "90m", "7us"}

// setting draws a primitive setting for a target of type t: the value put
// into the configuration and the typed value it has to produce.
func (g *vgen) setting(t reflect.Type, h hint) *cval {
	r := g.r
	c := &cval{form: "prim"}
	want := g.prim(t, h)
	switch family(t) {
	case "bool":
		c.raw = want.Bool()
	case "string":
		switch {
		case !h.has && r.Intn(12) == 0:
			want.SetString("")
			c.raw = ""
		case !h.has && r.Intn(12) == 0:
			n := r.Intn(100000) - 500
			want.SetString(strconv.Itoa(n))
			c.raw = n // "any primitive value which is serialized into a string"
		default:
			c.raw = want.String()
		}
	case "int":
		if !h.has && r.Intn(12) == 0 {
			want.SetInt(0)
		}
		i := want.Int()
		switch x := r.Intn(10); {
		case x < 4:
			c.raw = i
		case x < 7 && i >= math.MinInt32 && i <= math.MaxInt32:
			c.raw = int(i)
		case x == 7 && i >= 0:
			c.raw = uint64(i)
		case x == 8:
			c.raw = strconv.FormatInt(i, 10)
		default:
			c.raw = i
		}
	case "uint":
		u := want.Uint()
		switch x := r.Intn(10); {
		case x < 4:
			c.raw = u
		case x < 7 && u <= math.MaxInt32:
			c.raw = int(u)
		case x == 7:
			c.raw = strconv.FormatUint(u, 10)
		default:
			c.raw = u
		}
	case "float":
		f := want.Float()
		if t == tFloat32 {
			f = float64(float32(f))
		}
		if f == math.Trunc(f) && math.Abs(f) < 1e6 && r.Intn(3) == 0 {
			c.raw = int(f)
		} else {
			c.raw = f
		}
	case "regexp":
		c.raw = rxString(want)
	case "duration":
		switch {
		case h.has:
			secs := want.Int() / int64(time.Second)
			if r.Intn(2) == 0 {
				c.raw = int(secs)
			} else {
				c.raw = strconv.FormatInt(secs, 10) + "s"
			}
		case r.Intn(3) == 0:
			s := durationStrings[r.Intn(len(durationStrings))]
			d, _ := time.ParseDuration(s)
			want.SetInt(int64(d))
			c.raw = s
		case r.Intn(2) == 0:
			n := r.Intn(7200) - 100
			want.SetInt(int64(n) * int64(time.Second))
			c.raw = n
		default:
			q := r.Intn(4000) // quarters of a second: exact in float64
			want.SetInt(int64(q) * int64(250*time.Millisecond))
			c.raw = float64(q) / 4
		}
	}
	c.want = want
	return c
}

// garbage: a setting for a name nothing may read (ignored / unexported field).
func (g *vgen) garbage() *cval {
	opts := []interface{}{7, "notanumber", true, -2.5, map[string]interface{}{"x": 1, "y": "z"}, []interface{}{1, "two"}, "", nil}
	v := opts[g.r.Intn(len(opts))]
	return &cval{form: "raw", raw: v, null: v == nil}
}

// ---------------------------------------------------------------------------
// pre-fills

func (g *vgen) fillStruct(st *stype, v reflect.Value) {
	if ctor := libCtor(st.typ); ctor != nil {
		v.Set(ctor(g.r))
		return
	}
	for _, f := range st.fields {
		if f.unexported {
			continue
		}
		g.fillField(f, v.Field(f.idx))
	}
}

func (g *vgen) fillField(f *field, v reflect.Value) {
	r := g.r
	zero := r.Intn(3) == 0 && !f.hint.has
	n := 0
	if !zero {
		n = 1 + r.Intn(4)
	}
	switch f.kind {
	case kPrim:
		if !zero {
			v.Set(g.prim(f.prim, f.hint))
		}
	case kPtrPrim:
		if !zero {
			p := reflect.New(f.prim)
			if r.Intn(6) > 0 {
				p.Elem().Set(g.prim(f.prim, f.hint))
			}
			v.Set(p)
		}
	case kStruct:
		g.fillStruct(f.sub, v)
	case kPtrStruct:
		if !zero {
			p := reflect.New(f.sub.typ)
			g.fillStruct(f.sub, p.Elem())
			if f.sub.typ == tLibRing && r.Intn(3) == 0 {
				p.Elem().FieldByName("Next").Set(p) // the pointee refers to itself
			}
			v.Set(p)
		}
	case kUntouched:
		if zero || r.Intn(2) == 0 {
			return // nil interface / zero value Config
		}
		switch f.flavour {
		case "interface-with-initdefaults":
			// whether InitDefaults of the value held is called for an absent
			// setting is not pinned down: the value is one it does not change
			if r.Intn(2) == 0 {
				c := newLibConn(r)
				c.InitDefaults()
				v.Set(reflect.ValueOf(&c))
			} else {
				n := LibNoopInt(1 + r.Intn(99))
				v.Set(reflect.ValueOf(&n))
			}
		case "config-by-value":
			tree := g.cfgTree(r.Intn(4) == 0)
			if c := newConfig(tree); c != nil {
				cv := reflect.ValueOf(*c)
				if g.cfgs != nil {
					g.cfgs[cv.FieldByName("fields").Pointer()] = tree
				}
				v.Set(cv)
			}
		}
	case kSlicePrim, kSliceStruct:
		if zero && r.Intn(3) > 0 {
			return // nil
		}
		s := reflect.MakeSlice(f.typ, n, n+r.Intn(3))
		for i := 0; i < n; i++ {
			switch {
			case f.kind == kSlicePrim:
				s.Index(i).Set(g.prim(f.prim, hint{}))
			case f.elemPtr:
				p := reflect.New(f.sub.typ)
				g.fillStruct(f.sub, p.Elem())
				s.Index(i).Set(p)
			default:
				g.fillStruct(f.sub, s.Index(i))
			}
		}
		v.Set(s)
	case kArrayPrim:
		if !zero {
			for i := 0; i < v.Len(); i++ {
				v.Index(i).Set(g.prim(f.prim, hint{}))
			}
		}
	case kArrayComp:
		if !zero {
			for i := 0; i < v.Len(); i++ {
				g.fillField(f.elem, v.Index(i)) // every element filled or left zero on its own
			}
		}
	case kConfig:
		if !zero {
			tree := g.cfgTree(r.Intn(4) == 0)
			if c := newConfig(tree); c != nil {
				pv := reflect.ValueOf(c)
				if g.cfgs != nil {
					g.cfgs[pv.Pointer()] = tree
				}
				v.Set(pv)
			}
		}
	case kMapPrim, kMapPtrStruct, kMapStruct:
		if zero && r.Intn(3) > 0 {
			return // nil
		}
		if n > 3 {
			n = 3
		}
		m := reflect.MakeMap(f.typ)
		for i := 0; i < n; i++ {
			k := reflect.ValueOf(mapKeys[r.Intn(len(mapKeys))])
			switch f.kind {
			case kMapPrim:
				m.SetMapIndex(k, g.prim(f.prim, hint{}))
			case kMapPtrStruct:
				p := reflect.New(f.sub.typ)
				g.fillStruct(f.sub, p.Elem())
				m.SetMapIndex(k, p)
			default:
				e := reflect.New(f.sub.typ).Elem()
				g.fillStruct(f.sub, e)
				m.SetMapIndex(k, e)
			}
		}
		v.Set(m)
	}
}

// ---------------------------------------------------------------------------
// configurations mentioning a random subset of the field paths

type cfgStats struct {
	mentioned, unmentioned, nulls, noise int
}

// cfgStruct draws settings for the fields of st. pre: the pre-filled struct
// the settings will meet (invalid when a fresh value will be allocated).
func (g *vgen) cfgStruct(st *stype, pre reflect.Value, must bool, stats *cfgStats) *cval {
	r := g.r
	c := &cval{form: "fields", fields: map[*field]*cval{}}
	real := 0
	var candidates []*field
	for _, f := range st.fields {
		if f.unexported || f.ignore {
			if r.Intn(3) == 0 {
				c.fields[f] = g.garbage()
				stats.noise++
			}
			continue
		}
		if f.kind == kUntouched {
			// never mentioned; an explicit null is no setting either
			if r.Intn(6) == 0 {
				c.fields[f] = &cval{null: true, form: "raw"}
				stats.nulls++
			}
			continue
		}
		var fpre reflect.Value
		if pre.IsValid() {
			fpre = pre.Field(f.idx)
		}
		if f.inline {
			if sub := g.cfgStruct(f.sub, deref(fpre), false, stats); len(sub.fields) > 0 {
				c.fields[f] = sub
				if sub.real > 0 {
					real++
				}
			}
			continue
		}
		candidates = append(candidates, f)
		if r.Intn(2) == 0 {
			if f.kind != kStruct && f.kind != kPtrStruct {
				stats.unmentioned++
			} else {
				stats.unmentioned += f.sub.countLeaves()
			}
			continue
		}
		if r.Intn(16) == 0 {
			c.fields[f] = &cval{null: true, form: "raw"}
			stats.nulls++
			continue
		}
		if v := g.cfgField(f, fpre, stats); v != nil {
			c.fields[f] = v
			real++
		}
	}
	if must && real == 0 && len(candidates) > 0 {
		for try := 0; try < 8 && real == 0; try++ {
			f := candidates[r.Intn(len(candidates))]
			var fpre reflect.Value
			if pre.IsValid() {
				fpre = pre.Field(f.idx)
			}
			if v := g.cfgField(f, fpre, stats); v != nil {
				c.fields[f] = v
				real++
			}
		}
	}
	c.real = real
	return c
}

func deref(v reflect.Value) reflect.Value {
	if v.IsValid() && v.Kind() == reflect.Ptr {
		if v.IsNil() {
			return reflect.Value{}
		}
		return v.Elem()
	}
	return v
}

// cfgField draws a non-null setting for f (nil: nothing sensible to mention).
func (g *vgen) cfgField(f *field, pre reflect.Value, stats *cfgStats) *cval {
	r := g.r
	switch f.kind {
	case kPrim, kPtrPrim:
		stats.mentioned++
		return g.setting(f.prim, f.hint)
	case kStruct, kPtrStruct:
		sub := g.cfgStruct(f.sub, deref(pre), false, stats)
		if len(sub.fields) == 0 {
			return nil // an empty object is not a setting
		}
		return sub
	case kSlicePrim:
		stats.mentioned++
		c := &cval{form: "list"}
		n := 1 + r.Intn(4)
		if r.Intn(6) == 0 {
			n = 0 // the empty list `key: []`: a setting like any other list
		}
		for i := 0; i < n; i++ {
			c.list = append(c.list, g.setting(f.prim, hint{}))
		}
		return c
	case kArrayPrim:
		stats.mentioned++
		c := &cval{form: "list"}
		for i := 0; i < f.typ.Len(); i++ {
			c.list = append(c.list, g.setting(f.prim, hint{}))
		}
		return c
	case kArrayComp:
		// all N elements have to be given; each mentions a part of what the
		// element holds (some fields / some keys / a list of another length)
		stats.mentioned++
		c := &cval{form: "list"}
		var dummy cfgStats
		for i := 0; i < f.typ.Len(); i++ {
			var e reflect.Value
			if pre.IsValid() {
				e = pre.Index(i)
			}
			var ec *cval
			if f.elem.kind == kStruct {
				ec = g.cfgStruct(f.elem.sub, e, true, &dummy)
			} else {
				ec = g.cfgField(f.elem, e, &dummy)
			}
			c.list = append(c.list, ec)
		}
		return c
	case kSliceStruct:
		stats.mentioned++
		c := &cval{form: "list"}
		var dummy cfgStats
		n := 1 + r.Intn(3)
		if r.Intn(6) == 0 {
			n = 0 // the empty list
		}
		for i := 0; i < n; i++ {
			var e reflect.Value
			if pre.IsValid() && i < pre.Len() {
				e = deref(pre.Index(i))
			}
			c.list = append(c.list, g.cfgStruct(f.sub, e, true, &dummy))
		}
		return c
	case kConfig:
		stats.mentioned++
		// same shape (object / list) as what the field already holds
		list := r.Intn(4) == 0
		if pre.IsValid() && !pre.IsNil() && g.cfgs[pre.Pointer()] != nil {
			list = g.cfgs[pre.Pointer()].HasA
		}
		return &cval{form: "node", node: g.cfgTree(list)}
	case kMapPrim, kMapPtrStruct, kMapStruct:
		stats.mentioned++
		c := &cval{form: "keys", keys: map[string]*cval{}}
		var dummy cfgStats
		n := 1 + r.Intn(3)
		if r.Intn(8) == 0 {
			n = 0 // the empty object `key: {}`
		}
		for i := 0; i < n; i++ {
			k := mapKeys[r.Intn(len(mapKeys))]
			exists := pre.IsValid() && !pre.IsNil() && pre.MapIndex(reflect.ValueOf(k)).IsValid()
			switch f.kind {
			case kMapPrim:
				c.keys[k] = g.setting(f.prim, hint{})
			case kMapPtrStruct:
				var e reflect.Value
				if exists {
					e = deref(pre.MapIndex(reflect.ValueOf(k)))
				}
				c.keys[k] = g.cfgStruct(f.sub, e, true, &dummy)
			default:
				// by-value struct entries: only new keys (touching an existing
				// entry panics on this tree -- C07's finding, not ours)
				if exists {
					k = "n" + strconv.Itoa(i)
				}
				c.keys[k] = g.cfgStruct(f.sub, reflect.Value{}, true, &dummy)
			}
		}
		return c
	}
	return nil
}

// ---------------------------------------------------------------------------
// deep copies, rendering, equality

// copier makes deep copies and remembers which copy belongs to which source
// pointer / map (to check that untouched reference fields keep their identity).
type copier struct {
	twin map[uintptr]uintptr // source pointer or map -> its copy
	// made: the copies of the pointers met so far (values may contain themselves)
	made map[uintptr]reflect.Value
	// cfgs: the trees the *Config values were built from; a *Config is copied
	// by building a new one from its tree (without cfgs it is shared)
	cfgs map[uintptr]*model.Node
}

func (c *copier) copy(v reflect.Value) reflect.Value {
	switch v.Kind() {
	case reflect.Ptr:
		if v.IsNil() {
			return reflect.Zero(v.Type())
		}
		if v.Type() == tConfigPtr {
			tree := c.cfgs[v.Pointer()]
			if tree == nil {
				return v
			}
			n := reflect.ValueOf(newConfig(tree))
			if c.twin != nil {
				c.twin[v.Pointer()] = n.Pointer()
			}
			return n
		}
		if n, ok := c.made[v.Pointer()]; ok && n.Type() == v.Type() {
			return n
		}
		n := reflect.New(v.Type().Elem())
		if c.made == nil {
			c.made = map[uintptr]reflect.Value{}
		}
		c.made[v.Pointer()] = n
		if c.twin != nil {
			c.twin[v.Pointer()] = n.Pointer()
		}
		n.Elem().Set(c.copy(v.Elem()))
		return n
	case reflect.Interface:
		if v.IsNil() {
			return v
		}
		n := reflect.New(v.Type()).Elem()
		n.Set(c.copy(v.Elem()))
		return n
	case reflect.Struct:
		switch v.Type() {
		case tRegexp:
			return v // immutable
		case tConfigVal:
			// rebuilt from the tree it was made from (shared if unknown or zero)
			if tree := c.cfgs[v.FieldByName("fields").Pointer()]; tree != nil {
				if nc := newConfig(tree); nc != nil {
					return reflect.ValueOf(*nc)
				}
			}
			return v
		}
		n := reflect.New(v.Type()).Elem()
		n.Set(v) // carries the unexported fields (value kinds only) along
		for i := 0; i < v.NumField(); i++ {
			if v.Type().Field(i).PkgPath != "" {
				continue
			}
			switch v.Field(i).Kind() {
			case reflect.Ptr, reflect.Struct, reflect.Slice, reflect.Array, reflect.Map, reflect.Interface:
				n.Field(i).Set(c.copy(v.Field(i)))
			}
		}
		return n
	case reflect.Slice:
		if v.IsNil() {
			return reflect.Zero(v.Type())
		}
		n := reflect.MakeSlice(v.Type(), v.Len(), v.Cap())
		for i := 0; i < v.Len(); i++ {
			n.Index(i).Set(c.copy(v.Index(i)))
		}
		return n
	case reflect.Array:
		n := reflect.New(v.Type()).Elem()
		for i := 0; i < v.Len(); i++ {
			n.Index(i).Set(c.copy(v.Index(i)))
		}
		return n
	case reflect.Map:
		if v.IsNil() {
			return reflect.Zero(v.Type())
		}
		n := reflect.MakeMap(v.Type())
		for _, k := range v.MapKeys() {
			n.SetMapIndex(k, c.copy(v.MapIndex(k)))
		}
		if c.twin != nil {
			c.twin[v.Pointer()] = n.Pointer()
		}
		return n
	}
	return v
}

func deepCopy(v reflect.Value) reflect.Value { return (&copier{}).copy(v) }

// render prints a value with field names, following pointers; it reads
// unexported fields through the kind accessors only.
func render(v reflect.Value) string {
	var b strings.Builder
	renderTo(&b, v)
	return b.String()
}

func renderTo(b *strings.Builder, v reflect.Value) {
	switch v.Kind() {
	case reflect.Ptr:
		if v.IsNil() {
			b.WriteString("nil")
			return
		}
		if v.Type() == tConfigPtr {
			b.WriteString("&Config(" + configCanon(v) + ")")
			return
		}
		b.WriteByte('&')
		renderTo(b, v.Elem())
	case reflect.Interface:
		if v.IsNil() {
			b.WriteString("nil-interface")
			return
		}
		renderTo(b, v.Elem())
	case reflect.Struct:
		switch v.Type() {
		case tRegexp:
			b.WriteString("regexp(" + strconv.Quote(rxString(v)) + ")")
			return
		case tConfigVal:
			b.WriteString("Config(" + configValCanon(v) + ")")
			return
		case tLibRing:
			// may contain itself: the next node is not followed
			next := "nil"
			if !v.Field(2).IsNil() {
				next = "&..."
			}
			fmt.Fprintf(b, "{V:%d W:%q Next:%s}", v.Field(0).Int(), v.Field(1).String(), next)
			return
		}
		b.WriteByte('{')
		for i := 0; i < v.NumField(); i++ {
			if i > 0 {
				b.WriteByte(' ')
			}
			b.WriteString(v.Type().Field(i).Name + ":")
			renderTo(b, v.Field(i))
		}
		b.WriteByte('}')
	case reflect.Map:
		if v.IsNil() {
			b.WriteString("nilmap")
			return
		}
		keys := v.MapKeys()
		sort.Slice(keys, func(i, j int) bool { return keys[i].String() < keys[j].String() })
		b.WriteString("map[")
		for i, k := range keys {
			if i > 0 {
				b.WriteByte(' ')
			}
			b.WriteString(k.String() + ":")
			renderTo(b, v.MapIndex(k))
		}
		b.WriteByte(']')
	case reflect.Slice, reflect.Array:
		if v.Kind() == reflect.Slice && v.IsNil() {
			b.WriteString("nilslice")
			return
		}
		b.WriteByte('[')
		for i := 0; i < v.Len(); i++ {
			if i > 0 {
				b.WriteByte(' ')
			}
			renderTo(b, v.Index(i))
		}
		b.WriteByte(']')
	case reflect.String:
		b.WriteString(strconv.Quote(v.String()))
	case reflect.Bool:
		b.WriteString(strconv.FormatBool(v.Bool()))
	case reflect.Int, reflect.Int8, reflect.Int16, reflect.Int32, reflect.Int64:
		if v.Type() == tDuration {
			b.WriteString(time.Duration(v.Int()).String())
		} else {
			b.WriteString(strconv.FormatInt(v.Int(), 10))
		}
	case reflect.Uint, reflect.Uint8, reflect.Uint16, reflect.Uint32, reflect.Uint64:
		b.WriteString(strconv.FormatUint(v.Uint(), 10))
	case reflect.Float32, reflect.Float64:
		b.WriteString(strconv.FormatFloat(v.Float(), 'g', -1, 64))
	default:
		fmt.Fprintf(b, "?%s", v.Kind())
	}
}

// configCanon observes the contents of a non-nil *Config ("dict|list").
func configCanon(v reflect.Value) string {
	s, err := obs.Top(v.Interface().(*ucfg.Config), ucfg.PathSep("."))
	if err != nil {
		return "unreadable:" + err.Error()
	}
	return s
}

// configValCanon observes the contents of a Config held by value.
func configValCanon(v reflect.Value) string {
	if !v.CanInterface() {
		return "unreadable:unexported"
	}
	c := v.Interface().(ucfg.Config)
	s, err := obs.Top(&c, ucfg.PathSep("."))
	if err != nil {
		return "unreadable:" + err.Error()
	}
	return s
}

// equal is a deep equality that also reads unexported fields. strict: nil and
// empty slices / maps are different (used where a field must be untouched).
func equal(a, b reflect.Value, strict bool) bool {
	if a.Kind() != b.Kind() {
		return false
	}
	switch a.Kind() {
	case reflect.Ptr:
		if a.IsNil() || b.IsNil() {
			return a.IsNil() == b.IsNil()
		}
		if a.Type() == tConfigPtr {
			ca, cb := configCanon(a), configCanon(b)
			return ca == cb && !strings.HasPrefix(ca, "unreadable:")
		}
		return equal(a.Elem(), b.Elem(), strict)
	case reflect.Interface:
		if a.IsNil() || b.IsNil() {
			return a.IsNil() == b.IsNil()
		}
		return equal(a.Elem(), b.Elem(), strict)
	case reflect.Struct:
		if a.Type() != b.Type() {
			return false
		}
		switch a.Type() {
		case tRegexp:
			return rxString(a) == rxString(b)
		case tConfigVal:
			return configValCanon(a) == configValCanon(b)
		case tLibRing:
			// may contain itself: the next node is compared by identity where
			// it matters, here only nil against not nil
			return a.Field(0).Int() == b.Field(0).Int() && a.Field(1).String() == b.Field(1).String() && a.Field(2).IsNil() == b.Field(2).IsNil()
		}
		for i := 0; i < a.NumField(); i++ {
			if !equal(a.Field(i), b.Field(i), strict) {
				return false
			}
		}
		return true
	case reflect.Slice:
		if strict && a.IsNil() != b.IsNil() {
			return false
		}
		fallthrough
	case reflect.Array:
		if a.Len() != b.Len() {
			return false
		}
		for i := 0; i < a.Len(); i++ {
			if !equal(a.Index(i), b.Index(i), strict) {
				return false
			}
		}
		return true
	case reflect.Map:
		if strict && a.IsNil() != b.IsNil() {
			return false
		}
		if a.Len() != b.Len() {
			return false
		}
		for _, k := range a.MapKeys() {
			bv := b.MapIndex(k)
			if !bv.IsValid() || !equal(a.MapIndex(k), bv, strict) {
				return false
			}
		}
		return true
	case reflect.String:
		return a.String() == b.String()
	case reflect.Bool:
		return a.Bool() == b.Bool()
	case reflect.Int, reflect.Int8, reflect.Int16, reflect.Int32, reflect.Int64:
		return a.Int() == b.Int()
	case reflect.Uint, reflect.Uint8, reflect.Uint16, reflect.Uint32, reflect.Uint64:
		return a.Uint() == b.Uint()
	case reflect.Float32, reflect.Float64:
		return a.Float() == b.Float()
	}
	return false
}
