// Package c13: Unpack changes only what the config mentions and nothing when
// it fails.
//
// One case = one (type, pre-fill, configuration) triple: a struct type
// (generated with reflect.StructOf, or the hand-written LibTop), a random
// pre-filled value, a configuration mentioning a random subset of the field
// paths and one global merge option. The triple is unpacked once as it is
// (success half: field-path-wise comparison with a model of the statement)
// and once per field position with a single fault injected there (failure
// half: the struct passed in must equal its snapshot).
package c13

import (
	"fmt"
	"hash/fnv"
	"math/rand"
	"reflect"
	"sort"
	"strconv"
	"strings"

	ucfg "github.com/elastic/go-ucfg"

	"verif/internal/harness"
	"verif/internal/model"
)

type check struct{}

func init() { harness.Register(check{}) }

func (check) ID() string { return "C13" }

func (check) Cases(tier string) int {
	if tier == "thorough" {
		return 100000
	}
	return 2000
}

// typeGroup consecutive cases share one generated type (the type is derived
// from idx/typeGroup): reflect.StructOf types are never freed, this bounds
// their number per worker process.
const typeGroup = 4

func (check) Rule() string {
	return "one (type, pre-fill, configuration) triple per case. Type: derived from idx/4 (4 consecutive cases share it); 6 in 8 generated with reflect.StructOf (3-8 top-level fields, nesting depth <= 2; kinds bool, int/8/16/32/64, uint/8/16/32/64, float32/64, string, time.Duration, pointers to those, nested structs by value / by pointer / inline (inline, squash), []T and [N]T of primitives, [N]T (N <= 3) of structs (generated ones of primitives, or LibPlain with its unexported, ignored and embedded fields), of map[string]T and of []T, []struct, []*struct, map[string]T, map[string]*struct, map[string]struct; *ucfg.Config fields (pre-filled from a random object or list tree over a 4-key pool, or nil), config tags with and without a name (half of the names lower-case ASCII, the others with leading / inner / only upper-case letters, with _ and -, with lower- and upper-case non-ASCII letters, with letters that have no case; Go field names F<n>, MaxF<n>, F\u00dc<n>, F_x<n> and -- 1 in 5, at every nesting level, with and without a name in the tag -- names whose FIRST letter is a capital outside ASCII: Latin-1 \u00c4 \u00dc \u00d6 \u00d1 \u00c9, \u0141, Greek \u03a9 \u0394, Cyrillic \u0416 \u042f), ignore, merge/replace/append/prepend on lists, maps (1 in 3) and *Config fields and -- 2 in 5 -- merge/replace/append/prepend on struct-typed fields (by value, by pointer, inline; merge twice as often as each other option, because it only shows against an outer policy), validate tags min/max/positive/nonzero on fields that exist before Unpack; the hand-written LibConn, LibLimits, LibPlain (unexported fields, an embedded unexported struct, ignored fields, InitDefaults unconditional / conditional / touching an unexported field, Validate method) and the named primitives LibPort (constant InitDefaults), LibCondPort (conditional), LibNoopInt, LibNoopStr (InitDefaults doing nothing), the named list LibList and the named array LibArr (with a no-op InitDefaults), the named maps LibMap (no-op InitDefaults) and LibDefMap (InitDefaults sets one entry outside the key pool) in 1 of 4 map-of-primitive fields, regexp.Regexp by value and by pointer, inline structs by pointer (nil or pre-filled; half of their struct types start with a struct inlined in turn, by value or by pointer, followed by ordinary fields), and fields no configuration mentions -- an interface type listing InitDefaults (nil, or holding a pointer whose InitDefaults changes nothing), ucfg.Config by value (zero or filled), the next pointer of the self-referential LibRing (nil, a chain, the node itself, a ring of two) -- as ordinary fields by value and by pointer; 1 in 3 of the generated types hold, at random places among 2-5 ordinary fields, 2-4 fields with values of ONE carrier struct type (1-2 primitive fields and, at a random place among them, a pointer to a struct of 1-3 primitives inlined into it): []T, []*T, [2-3]T, map[string]T, map[string]*T, T, *T, and at most one pointer to the same struct of primitives inlined into the enclosing struct itself -- so that one Unpack call meets several nil inline pointers of one struct type (elements of one list, entries of one map, sibling fields, in every declaration order); the self-unpacking LibSelf (Unpack(*Config), rejects lo > hi itself after having stored), LibSelfV (Unpack(*Config), Validate method rejects), LibSelfAny (Unpack(interface{})) likewise; half of the generated types carry a second tag set under the key alt on 4 fields in 5: other name, ignore flag and merge policy drawn independently, the hand-written types carry a few alt tags too), 1 in 8 the hand-written LibTop, 1 in 8 one of the three self-unpacking types as the top-level target, 1 in 64 LibRing (1 in 3 of those with the target itself as its next node). Pre-fill: every field non-zero w.p. 2/3 (nil and empty slices/maps, nil pointers otherwise; validated fields always valid). Configuration: nested map[string]interface{} through NewFrom(PathSep(\".\")), every field path mentioned w.p. 1/2 (1 in 16 of those with an explicit null), numbers as int/int64/uint64/float64/decimal string, durations as string/seconds, ignored and unexported names mentioned w.p. 1/3 with arbitrary data, map settings over a 5-key pool shared with the pre-fill, *Config settings as object / list trees of the shape the field already holds over the key pool of the pre-fill (depth <= 3, primitives, lists of primitives, lists of objects). Every array element is pre-filled on its own and its setting mentions a part of it (a subset of the fields / keys, a list of another length). Success half: Unpack into a deep copy under each of none / AppendValues / PrependValues / ReplaceValues / ReplaceArrValues with the default struct tag; the same type is also unpacked under StructTag(alt) with a configuration drawn from the alt reading of the type (once at a random place among those five calls, the front included, once after them) and then under the default tag again; every result is compared field-path-wise with the model of the tag set in use. A deviation is re-run on a twin type (the same struct tags plus one meaningless key, values converted) to tell dependence on earlier calls from a wrong result. Failure half (under one of the five options and -- 1 in 3 -- under StructTag(alt), drawn per case): for every configurable field position in declaration order (nested, inline and pointee positions included) one fault at a time (up to two different ones per position: unparsable string, overflow, negative into unsigned, bool/object/list into primitive, string into struct/map, primitive into *Config, wrong array length, faulty list element / struct-list element / map value / element of a composite array (the elements before it are merged first), failing validate tag, failing Validate method) is grafted onto the configuration and the struct passed in is compared with its snapshot. Plus per case a top-level []int / []string target and a top-level map[string]int target under the drawn option. Non-trivial = the type has >= 3 configurable leaf fields, the configuration mentions >= 1 and leaves out >= 1 of them; distinct = distinct (type, pre-fill, configuration, drawn option)."
}

func (check) Assumptions() []string {
	return []string{
		"active policy = the field's own tag option (merge = index-wise), else the tag option of the nearest enclosing struct-typed field (doc comment of Unpack: the tag options overwrite the global strategy 'for all sub-fields'; merge is taken to be a tag option like the other three: below a field tagged merge lists are merged index-wise again whatever the global option says), else the global option, else index-wise; ReplaceArrValues is modelled as replace for lists (its own doc comment says it applies to unpacking)",
		"a *Config field the configuration mentions holds afterwards what the merge model of C01 (internal/model.Merge: union of dictionaries, lists per policy, replace drops the old dictionary) gives for (tree it held, setting, active policy), a nil field the setting itself; contents are observed through Unpack into a map and into a slice and compared in canonical form; the setting has the shape (object / list) of what the field holds; whether a mentioned *Config field keeps its identity is not compared, an unmentioned one must keep identity and contents",
		"InitDefaults is modelled only where the doc comment states it: the top-level struct, struct-typed fields by value (also without a setting), pointer fields only when the configuration has a setting for them, primitives with InitDefaults; it runs on top of the value the field holds ('as it was or as InitDefaults set it': a field InitDefaults does not assign stays as it was, for primitives like for structs and maps), never for lists and arrays (doc comment: not supported on them); all InitDefaults of the hand-written types are idempotent, so the number of calls is not pinned; whether InitDefaults of a value held in an interface field without a setting is called is not pinned (both outcomes satisfy 'as it was or as InitDefaults set it'): those values are ones InitDefaults does not change. Map types with InitDefaults are only generated as struct fields held by value, where the defaults are applied to the map the field holds (or the new one) before the settings, also without a setting (a nil map may become an empty one: compared without regard to nil); behind pointers and as elements they are not generated: whether a freshly made map carries the defaults ('as InitDefaults set it') or not ('as it was') is the same disjunction there",
		"fields of kinds the configurations of this check never mention (interface types with methods, ucfg.Config by value, pointers of a type to itself) have to come out of every Unpack as they went in; a pointer into a ring is compared by identity only, because the ring may contain the target itself; a pre-filled value that contains itself is a pre-filled value like any other ('for all pre-filled values'): Unpack has to terminate on it",
		"the name in a struct tag is the name of the setting exactly as written (only a field without a name in its tag is known by its lower-cased Go name); whether a setting spelled in another case is found as well is not generated",
		"maps follow the active policy like lists do ('merging lists and maps according to the active policy'; ReplaceValues: 'all merging and unpacking operations ... replace old dictionaries and arrays'): under replace -- global, tag or inherited -- a mentioned map holds the new entries alone, under every other policy (arr-replace included: it concerns lists) the entries are merged key by key; struct-typed fields are not dictionaries in this sense, their unmentioned fields always stay",
		"an inlined struct behind a nil pointer is treated like any other nil pointer field: allocated when the configuration has a non-null setting for one of its fields (those of structs inlined into it included), left nil otherwise; settings for ignored or unexported names do not count; a pre-filled inlined pointee is visited like a struct held by value whether anything of it is mentioned or not (InitDefaults of what it holds by value runs: 'as InitDefaults set it')",
		"which ill-typed settings Unpack must reject is not this property's business (a list for a struct field, an object for a list field are silently skipped on this tree): injected faults that are not raised are only counted; a dotted tag name over an unresolvable reference (VarExp) is not generated",
		"an explicit null is 'no setting'; the empty list `key: []` is a setting (1 in 6 of the list settings of slice fields, slice elements of arrays and the top-level slice): under a replacing policy -- tag, inherited tag, ReplaceValues, ReplaceArrValues -- the field holds the empty list afterwards (nil or empty not compared), under append / prepend / index-wise merge the list as it was; the empty object `key: {}` for a map field (1 in 8) leaves the entries alone under every policy but replace, where both 'the map holds the new (no) entries' and 'an empty dictionary replaces nothing' (the merge statement C01) can be read into the statement: not compared, counted; an empty object for a struct field, an empty list for a fixed-size array and empty containers inside *Config trees are not generated; null elements inside lists and null entries of maps are never generated (see the next but one entry)",
		"expected values of primitives come from the generator (value and its configuration spelling are drawn together); conversions proper are C03's business: only exact ones are used (floats are multiples of 1/4 or float64 literals into float64, durations whole or quarter seconds)",
		"a list whose active policy replaces consists of the new values alone: an element of a replaced list of structs is the zero value with the settings of its position applied, nothing of the old element at that position survives (doc comment: 'replaced by the new values')",
		"a null at a list position is never generated and what it does to a pre-filled slot is not compared: the statement does not pin it down. For a struct field a null is 'no setting' (the field is left alone), but the positions of a list can not be absent, and C01's merge statement lets a null in the merged-in list win over a primitive; so both 'slot untouched' ([nil,5] onto [1,2,3] = [1,5,3]) and 'slot takes the value a fresh unpack of the merged configuration gives' ([0,5,3], what this tree does) can be read into it; the same goes for a null entry of a map (m: {a: null} onto map[a:1] gives a:0 on this tree, a null struct field leaves the field alone)",
		"StructTag(t) makes Unpack read names, ignore/inline flags and merge policies from the tag t alone (a field without that tag has its lower-cased name and no options), whatever tags the process used before; validate tags stay under their own key",
		"the self-unpacking types of this package do, on success, what the library does for an ordinary struct with the same fields (null or absent: untouched), so the same model applies; which of their failures a library version reports is not compared, only that the struct passed in is unchanged afterwards",
		"not compared: whether a mentioned pointer / map field keeps its identity; nil versus empty for mentioned lists; which error a failed Unpack returns and whether an injected fault is reported at all (counted as fault_not_raised)",
		"after a failed Unpack: nested struct values and arrays are compared recursively, pointer and map fields by identity only (contents excluded as in the statement), slices by length, nil-ness and -- primitive elements only -- element values",
		"validate tags are only generated where the value exists before Unpack (top level, by-value and inline nesting) and pre-fills always pass them, because Unpack validates untouched fields too; struct elements of lists and maps hold primitives and -- the carrier type -- one inlined pointer to a struct of primitives (a struct that never reaches its own type again: what the recursion guard for self-inlining types does below a named field is C06's business); map[string]struct entries that already exist are never touched (panic on this tree: C07's finding); inline maps, pointers inside lists/maps, lists of lists are not generated (C06/C07); lists inside the elements of an array follow the policy in force for the array field",
	}
}

type globalOpt struct {
	name string
	pc   polCtx
	opts []ucfg.Option
}

var globals = []globalOpt{
	{"none", polCtx{"default", "none", ""}, nil},
	{"AppendValues", polCtx{"append", "global", ""}, []ucfg.Option{ucfg.AppendValues}},
	{"PrependValues", polCtx{"prepend", "global", ""}, []ucfg.Option{ucfg.PrependValues}},
	{"ReplaceValues", polCtx{"replace", "global", ""}, []ucfg.Option{ucfg.ReplaceValues}},
	{"ReplaceArrValues", polCtx{"arr-replace", "global", ""}, []ucfg.Option{ucfg.ReplaceArrValues}},
}

// ---------------------------------------------------------------------------
// faults

func badPrim(r *rand.Rand, t reflect.Type, h hint) (interface{}, string) {
	if h.has && r.Intn(2) == 0 {
		kind := "validate-tag:" + h.validate
		if h.viaMeth {
			kind = "validate-method"
		}
		switch {
		case h.str:
			return h.badStr, kind
		case family(t) == "float":
			return float64(h.bad), kind
		case family(t) == "duration":
			return strconv.FormatInt(h.bad, 10) + "s", kind
		}
		return h.bad, kind
	}
	obj := map[string]interface{}{"k": 1}
	fam := family(t)
	type cand struct {
		v    interface{}
		kind string
	}
	var cs []cand
	switch fam {
	case "int":
		cs = []cand{{"notanumber", "string-into-int"}, {obj, "object-into-int"}, {true, "bool-into-int"}, {[]interface{}{1, 2}, "list-into-int"}}
		switch t.Kind() {
		case reflect.Int8:
			cs = append(cs, cand{300, "overflow-int8"}, cand{-129, "overflow-int8"})
		case reflect.Int16:
			cs = append(cs, cand{70000, "overflow-int16"})
		case reflect.Int32:
			cs = append(cs, cand{int64(1) << 40, "overflow-int32"})
		default:
			cs = append(cs, cand{uint64(1) << 63, "overflow-int64"})
		}
	case "uint":
		cs = []cand{{"x y", "string-into-uint"}, {obj, "object-into-uint"}, {-7, "negative-into-uint"}}
		switch t.Kind() {
		case reflect.Uint8:
			cs = append(cs, cand{300, "overflow-uint8"})
		case reflect.Uint16:
			cs = append(cs, cand{70000, "overflow-uint16"})
		case reflect.Uint32:
			cs = append(cs, cand{int64(1) << 40, "overflow-uint32"})
		}
	case "float":
		cs = []cand{{"1.2.3", "string-into-float"}, {obj, "object-into-float"}}
		if t == tFloat32 {
			cs = append(cs, cand{1e300, "overflow-float32"})
		}
	case "bool":
		cs = []cand{{"maybe", "string-into-bool"}, {obj, "object-into-bool"}}
	case "string":
		cs = []cand{{obj, "object-into-string"}, {[]interface{}{"a", "b"}, "list-into-string"}}
	case "duration":
		cs = []cand{{"xyz", "string-into-duration"}, {obj, "object-into-duration"}}
	case "regexp":
		cs = []cand{{"(", "string-into-regexp"}, {"[a", "string-into-regexp"}, {obj, "object-into-regexp"}}
	}
	c := cs[r.Intn(len(cs))]
	return c.v, c.kind
}

// faultClass coarsens a fault kind for the signatures (the full kind stays in
// the monitors and in the witness).
func faultClass(kind string) string {
	if i := strings.Index(kind, ":"); i >= 0 && !strings.HasPrefix(kind, "validate-tag") {
		return kind[:i] // list-elem, struct-list-elem, array-elem, map-value, map-struct-value
	}
	switch {
	case strings.HasPrefix(kind, "validate-tag"):
		return "validate-tag"
	case strings.HasPrefix(kind, "overflow-"), kind == "negative-into-uint":
		return "overflow"
	case strings.HasSuffix(kind, "-into-struct"), strings.HasSuffix(kind, "-into-map"), strings.HasSuffix(kind, "-into-config"):
		return "primitive-into-container"
	case strings.Contains(kind, "-into-"):
		return "conversion"
	}
	return kind // array-length, validate-method, unexpected-error
}

func rawVal(v interface{}) *cval { return &cval{form: "raw", raw: v} }

// faultFor builds a failing setting for field f.
func (g *vgen) faultFor(f *field, pre reflect.Value) (*cval, string) {
	r := g.r
	var dummy cfgStats
	est := f.sub
	if f.kind == kArrayComp {
		est = f.elem.sub
	}
	subFault := func() (*cval, string) {
		// an element object with one faulty primitive field
		var prims []*field
		for _, sf := range est.fields {
			if sf.kind == kPrim && !sf.ignore && !sf.unexported {
				prims = append(prims, sf)
			}
		}
		if len(prims) == 0 {
			return nil, ""
		}
		sf := prims[r.Intn(len(prims))]
		v, kind := badPrim(r, sf.prim, hint{})
		e := g.cfgStruct(est, reflect.Value{}, false, &dummy)
		e.fields[sf] = rawVal(v)
		return e, kind
	}
	switch f.kind {
	case kPrim, kPtrPrim:
		v, kind := badPrim(r, f.prim, f.hint)
		return rawVal(v), kind
	case kStruct, kPtrStruct:
		if r.Intn(2) == 0 {
			return rawVal("text"), "string-into-struct"
		}
		return rawVal(5), "int-into-struct"
	case kConfig:
		switch r.Intn(3) {
		case 0:
			return rawVal("text"), "string-into-config"
		case 1:
			return rawVal(5), "int-into-config"
		}
		return rawVal(true), "bool-into-config"
	case kSlicePrim:
		c := &cval{form: "list"}
		for i, n := 0, r.Intn(3); i < n; i++ {
			c.list = append(c.list, g.setting(f.prim, hint{}))
		}
		v, kind := badPrim(r, f.prim, hint{})
		c.list = append(c.list, rawVal(v))
		return c, "list-elem:" + kind
	case kSliceStruct:
		c := &cval{form: "list"}
		for i, n := 0, r.Intn(3); i < n; i++ {
			c.list = append(c.list, g.cfgStruct(f.sub, reflect.Value{}, true, &dummy))
		}
		e, kind := subFault()
		if e == nil {
			return nil, ""
		}
		c.list = append(c.list, e)
		return c, "struct-list-elem:" + kind
	case kArrayPrim:
		c := &cval{form: "list"}
		n := f.typ.Len()
		if r.Intn(2) == 0 {
			if n > 1 && r.Intn(2) == 0 {
				n--
			} else {
				n++
			}
			for i := 0; i < n; i++ {
				c.list = append(c.list, g.setting(f.prim, hint{}))
			}
			return c, "array-length"
		}
		bad := r.Intn(n)
		kind := ""
		for i := 0; i < n; i++ {
			if i == bad {
				var v interface{}
				v, kind = badPrim(r, f.prim, hint{})
				c.list = append(c.list, rawVal(v))
			} else {
				c.list = append(c.list, g.setting(f.prim, hint{}))
			}
		}
		return c, "array-elem:" + kind
	case kArrayComp:
		c := &cval{form: "list"}
		n := f.typ.Len()
		good := func(i int) *cval {
			var e reflect.Value
			if pre.IsValid() && i < pre.Len() {
				e = pre.Index(i)
			}
			if f.elem.kind == kStruct {
				return g.cfgStruct(est, e, true, &dummy)
			}
			return g.cfgField(f.elem, e, &dummy)
		}
		if r.Intn(3) == 0 {
			if n > 1 && r.Intn(2) == 0 {
				n--
			} else {
				n++
			}
			for i := 0; i < n; i++ {
				c.list = append(c.list, good(i))
			}
			return c, "array-length"
		}
		// one faulty element; the elements before it are merged first
		bad := r.Intn(n)
		kind := ""
		for i := 0; i < n; i++ {
			if i != bad {
				c.list = append(c.list, good(i))
				continue
			}
			var e *cval
			if f.elem.kind == kStruct && r.Intn(3) > 0 {
				e, kind = subFault()
			}
			if e == nil {
				var epre reflect.Value
				if pre.IsValid() {
					epre = pre.Index(i)
				}
				e, kind = g.faultFor(f.elem, epre)
			}
			if e == nil {
				return nil, ""
			}
			c.list = append(c.list, e)
		}
		return c, "array-elem:" + kind
	case kMapPrim:
		if r.Intn(3) == 0 {
			return rawVal("text"), "string-into-map"
		}
		c := &cval{form: "keys", keys: map[string]*cval{}}
		for i, n := 0, r.Intn(3); i < n; i++ {
			c.keys[mapKeys[r.Intn(len(mapKeys))]] = g.setting(f.prim, hint{})
		}
		v, kind := badPrim(r, f.prim, hint{})
		c.keys["kbad"] = rawVal(v)
		return c, "map-value:" + kind
	case kMapPtrStruct, kMapStruct:
		e, kind := subFault()
		if e == nil {
			return nil, ""
		}
		c := &cval{form: "keys", keys: map[string]*cval{}}
		k := "kbad"
		if f.kind == kMapPtrStruct && pre.IsValid() && !pre.IsNil() && pre.Len() > 0 && r.Intn(2) == 0 {
			var ks []string
			for _, key := range pre.MapKeys() {
				ks = append(ks, key.String())
			}
			sort.Strings(ks)
			k = ks[0]
		}
		c.keys[k] = e
		return c, "map-struct-value:" + kind
	}
	return nil, ""
}

// positions lists the configurable field paths in declaration order.
func positions(st *stype, prefix []*field, out *[][]*field) {
	for _, f := range st.fields {
		if f.unexported || f.ignore || f.kind == kUntouched {
			continue
		}
		p := append(append([]*field{}, prefix...), f)
		switch f.kind {
		case kStruct, kPtrStruct:
			if !f.inline {
				*out = append(*out, p)
			}
			positions(f.sub, p, out)
		default:
			*out = append(*out, p)
		}
	}
}

// graft returns a copy of cfg with the setting at path replaced by fault.
func graft(cfg *cval, path []*field, fault *cval) *cval {
	n := cfg.clone()
	cur := n
	for _, f := range path[:len(path)-1] {
		nxt := cur.fields[f]
		if nxt == nil || nxt.null || nxt.form != "fields" {
			nxt = &cval{form: "fields", fields: map[*field]*cval{}}
			cur.fields[f] = nxt
		}
		cur = nxt
	}
	cur.fields[path[len(path)-1]] = fault
	return n
}

// stripNoise removes the settings addressed to ignored / unexported fields.
func stripNoise(c *cval) *cval {
	n := c.clone()
	var walk func(*cval)
	walk = func(c *cval) {
		if c == nil {
			return
		}
		for f, v := range c.fields {
			if f.unexported || f.ignore {
				delete(c.fields, f)
				continue
			}
			walk(v)
		}
		for _, v := range c.list {
			walk(v)
		}
		for _, v := range c.keys {
			walk(v)
		}
	}
	walk(n)
	return n
}

// ---------------------------------------------------------------------------
// the case

type runner struct {
	res     *harness.R
	top     *stype                  // the type as it reads under the struct tag in use
	master  reflect.Value           // the pre-filled value; never handed to Unpack
	cfgs    map[uintptr]*model.Node // the trees of the pre-filled *Config fields of master
	gopt    globalOpt
	verbose bool
	lastExp reflect.Value // what the model expected of the last successful Unpack
	// recheck compares another result with the model of the last successful Unpack
	recheck func(got reflect.Value, twin map[uintptr]uintptr) bool
}

// fresh returns a pointer to a deep copy of the pre-fill and the identity map.
func (rn *runner) fresh() (reflect.Value, map[uintptr]uintptr) {
	cp := &copier{twin: map[uintptr]uintptr{}, cfgs: rn.cfgs}
	p := reflect.New(rn.top.typ)
	// a pre-filled value that refers to itself: so does its copy
	cp.made = map[uintptr]reflect.Value{rn.master.Addr().Pointer(): p}
	cp.twin[rn.master.Addr().Pointer()] = p.Pointer()
	p.Elem().Set(cp.copy(rn.master))
	return p, cp.twin
}

// unpack builds the configuration and unpacks it into target (a pointer).
func (rn *runner) unpack(goCfg interface{}, target reflect.Value, ctx func() string) (err error, ok bool) {
	c, cerr := ucfg.NewFrom(goCfg, ucfg.PathSep("."))
	if cerr != nil {
		rn.res.Inconc("NewFrom failed on generated data: %v; %s", cerr, ctx())
		return nil, false
	}
	panicked, pv, where := harness.Safe(func() { err = c.Unpack(target.Interface(), rn.options()...) })
	rn.res.Eval(1)
	if panicked {
		// classified by the innermost function of the library on the stack
		site := where
		if i := strings.Index(site, "<"); i >= 0 {
			site = site[:i]
		}
		site = strings.TrimPrefix(site, "go-ucfg.")
		rn.res.Violate("panic:Unpack:"+site, "panic %q at %s; %s", pv, where, ctx())
		return nil, false
	}
	return err, true
}

// suspects names what the type and the pre-filled value hold of the shapes an
// Unpack is known to stumble over without any setting for them.
func suspects(st *stype, pre reflect.Value, everywhere bool, out map[string]bool) {
	for _, f := range st.fields {
		if f.unexported || f.ignore {
			continue
		}
		fpre := sub(pre, f.idx)
		switch {
		case f.kind == kUntouched && f.flavour == "config-by-value":
			out["config-by-value-field"] = true
		case f.kind == kArrayPrim && implementsPtr(f.typ, tIniter):
			out["array-type-with-initdefaults"] = true
		case f.kind == kPtrStruct && f.inline && (!fpre.IsValid() || fpre.IsNil()):
			out["nil-inline-pointer"] = true
		case f.kind == kStruct, f.kind == kPtrStruct && (everywhere || fpre.IsValid() && !fpre.IsNil()):
			suspects(f.sub, deref(fpre), everywhere, out)
		}
	}
}

// rejectionClass: a configuration that is valid by construction was rejected;
// is even the empty configuration rejected for this type and pre-filled value?
func (rn *runner) rejectionClass() string {
	c, cerr := ucfg.NewFrom(map[string]interface{}{})
	if cerr != nil {
		return ""
	}
	target, _ := rn.fresh()
	var err error
	panicked, _, _ := harness.Safe(func() { err = c.Unpack(target.Interface(), rn.options()...) })
	rn.res.Eval(1)
	if panicked {
		return ""
	}
	// the empty configuration passes: the shapes may sit behind a pointer
	// that is only followed when the configuration mentions it
	how, everywhere := ":the-empty-configuration-fails-too:", false
	if err == nil {
		how, everywhere = ":fails-when-a-struct-behind-a-pointer-is-mentioned:", true
	}
	set := map[string]bool{}
	suspects(rn.top, rn.master, everywhere, set)
	if everywhere && len(set) == 0 {
		return ""
	}
	var names []string
	for n := range set {
		names = append(names, n)
	}
	sort.Strings(names)
	if len(names) == 0 {
		names = []string{"other"}
	}
	return how + strings.Join(names, "+")
}

// options: the global merge option and -- for the second tag set -- StructTag.
func (rn *runner) options() []ucfg.Option {
	opts := append([]ucfg.Option{}, rn.gopt.opts...)
	if rn.top.tagKey != "config" {
		opts = append(opts, ucfg.StructTag(rn.top.tagKey))
	}
	return opts
}

// twinType rebuilds the generated (unnamed) struct types inside t with one
// more, meaningless, key in every struct tag. The twin is the same type as
// far as Unpack is concerned; values convert between the two.
func twinType(t reflect.Type) reflect.Type {
	switch t.Kind() {
	case reflect.Struct:
		if t.Name() != "" {
			return t
		}
		fs := make([]reflect.StructField, t.NumField())
		for i := range fs {
			sf := t.Field(i)
			fs[i] = reflect.StructField{Name: sf.Name, Type: twinType(sf.Type), Tag: reflect.StructTag(strings.TrimSpace(string(sf.Tag) + ` twin:"1"`))}
		}
		return reflect.StructOf(fs)
	case reflect.Ptr:
		if t.Name() == "" {
			return reflect.PtrTo(twinType(t.Elem()))
		}
	case reflect.Slice:
		if t.Name() == "" {
			return reflect.SliceOf(twinType(t.Elem()))
		}
	case reflect.Array:
		if t.Name() == "" {
			return reflect.ArrayOf(t.Len(), twinType(t.Elem()))
		}
	case reflect.Map:
		if t.Name() == "" {
			return reflect.MapOf(t.Key(), twinType(t.Elem()))
		}
	}
	return t
}

// historyDependent: does the same Unpack (same options, same configuration,
// an equal pre-filled value) into the twin type give another result than got?
// Unpack is a function of its arguments; a difference means it depends on what
// the process unpacked before (the same tags under another StructTag option).
func (rn *runner) historyDependent(goCfg interface{}, got reflect.Value, failed bool) (bool, string) {
	tt := twinType(rn.top.typ)
	if tt == rn.top.typ {
		return false, ""
	}
	src, _ := rn.fresh()
	tw := reflect.New(tt)
	tw.Elem().Set(src.Elem().Convert(tt))
	// Unpack itself is checked on the original type: here only the result counts
	c, cerr := ucfg.NewFrom(goCfg, ucfg.PathSep("."))
	if cerr != nil {
		return false, ""
	}
	var err error
	panicked, _, _ := harness.Safe(func() { err = c.Unpack(tw.Interface(), rn.options()...) })
	rn.res.Eval(1)
	if panicked || err != nil {
		return false, ""
	}
	if failed {
		return true, "no error"
	}
	if !got.IsValid() {
		return false, ""
	}
	back := tw.Elem().Convert(rn.top.typ)
	if equal(back, got, false) {
		return false, ""
	}
	return true, render(back)
}

func clip(s string, n int) string {
	if len(s) > n {
		return s[:n] + "...(clipped)"
	}
	return s
}

func (rn *runner) context(cfg interface{}) func() string {
	return func() string {
		return fmt.Sprintf("option=%s struct-tag=%s config=%s pre-filled=%s type=%s", rn.gopt.name, rn.top.tagKey, clip(renderGo(cfg), 1500), clip(render(rn.master), 1500), clip(rn.top.typ.String(), 2000))
	}
}

// checkAtomic: after a failed Unpack the struct passed in equals the snapshot.
func (rn *runner) checkAtomic(got reflect.Value, twin map[uintptr]uintptr, faultKind string, faultTop int, err error, ctx func() string) {
	k := &comparer{res: rn.res, twin: twin, cfgs: rn.cfgs, ctx: ctx}
	for i := 0; i < rn.master.NumField(); i++ {
		d := k.untouched(rn.master.Field(i), got.Field(i), "."+rn.top.typ.Field(i).Name)
		if d == "" {
			continue
		}
		pos := "at"
		switch {
		case faultTop < 0:
			pos = "unknown"
		case i < faultTop:
			pos = "before"
		case i > faultTop:
			pos = "after"
		}
		what := "struct-modified-on-failure:"
		if rn.top.selfUnpacks {
			// the target has its own Unpack method (and it stored something before failing)
			what = "self-unpacking-target-modified-on-failure:"
		}
		rn.res.Violate(what+faultClass(faultKind)+":"+pos, "Unpack returned %q but field %s differs: now %s, before %s; %s",
			err, d, render(got.Field(i)), render(rn.master.Field(i)), ctx())
	}
}

// success runs the success half once and classifies what it finds: deviations
// that disappear when the same call is made with a twin type are reported as
// dependence on the struct tags used earlier, all others as they are.
func (rn *runner) success(cfg *cval) {
	out := rn.res
	tmp := harness.NewR(out.Index)
	rn.res = tmp
	got, failed := rn.success1(cfg)
	rn.res = out
	out.Evals += tmp.Evals
	for k, v := range tmp.Events {
		if k != "violations_raw" {
			out.Ev(k, v)
		}
	}
	for _, s := range tmp.Inconclusive {
		out.Inconc("%s", s)
	}
	if len(tmp.Violations) == 0 {
		return
	}
	goCfg := cfg.toGo()
	if dep, twinRes := rn.historyDependent(goCfg, got, failed); dep {
		seen := map[string]bool{}
		for _, v := range tmp.Violations {
			class := v.Sig
			if i := strings.Index(class, ":"); i >= 0 {
				class = class[:i]
			}
			if seen[class] {
				continue
			}
			seen[class] = true
			out.Violate("unpack-depends-on-struct-tags-used-earlier:"+rn.top.tagKey+":"+class,
				"the same Unpack into a twin type (the same struct tags plus one meaningless key) gives %s; deviation on the original type: %s", twinRes, v.Detail)
		}
		return
	}
	if rn.lowerCaseExplains(goCfg) {
		seen := map[string]bool{}
		for _, v := range tmp.Violations {
			class := v.Sig
			if i := strings.Index(class, ":"); i >= 0 {
				class = class[:i]
			}
			if seen[class] {
				continue
			}
			seen[class] = true
			out.Violate("setting-looked-up-under-lower-cased-name:"+class,
				"the same configuration with all its names in lower case gives exactly what the model expects of the original; deviation: %s", v.Detail)
		}
		return
	}
	for _, v := range tmp.Violations {
		out.Violate(v.Sig, "%s", v.Detail)
	}
}

// lowerKeys returns data with every map key in lower case.
func lowerKeys(v interface{}) (interface{}, bool) {
	changed := false
	switch x := v.(type) {
	case map[string]interface{}:
		m := make(map[string]interface{}, len(x))
		for k, e := range x {
			le, ch := lowerKeys(e)
			lk := strings.ToLower(k)
			changed = changed || ch || lk != k
			m[lk] = le
		}
		return m, changed
	case []interface{}:
		l := make([]interface{}, len(x))
		for i, e := range x {
			var ch bool
			l[i], ch = lowerKeys(e)
			changed = changed || ch
		}
		return l, changed
	}
	return v, false
}

// lowerCaseExplains: does the configuration spelled in lower case produce
// what the model expects of the original one? Then the names of the struct
// tags were not used as they are written.
func (rn *runner) lowerCaseExplains(goCfg interface{}) bool {
	low, changed := lowerKeys(goCfg)
	if !changed || !rn.lastExp.IsValid() {
		return false
	}
	c, cerr := ucfg.NewFrom(low, ucfg.PathSep("."))
	if cerr != nil {
		return false
	}
	target, twin := rn.fresh()
	var err error
	panicked, _, _ := harness.Safe(func() { err = c.Unpack(target.Interface(), rn.options()...) })
	rn.res.Eval(1)
	return !panicked && err == nil && rn.recheck(target.Elem(), twin)
}

// success1: got is the value after a successful Unpack; failed: Unpack
// returned an error for a configuration that is valid by construction.
func (rn *runner) success1(cfg *cval) (got reflect.Value, failed bool) {
	res := rn.res
	rn.lastExp, rn.recheck = reflect.Value{}, nil
	goCfg := cfg.toGo()
	ctx := rn.context(goCfg)
	target, twin := rn.fresh()
	err, ok := rn.unpack(goCfg, target, ctx)
	if !ok {
		return reflect.Value{}, false
	}
	if err != nil {
		// the configuration is valid by construction
		sig := "valid-config-rejected"
		t2, _ := rn.fresh()
		if err2, ok2 := rn.unpack(stripNoise(cfg).toGo(), t2, ctx); ok2 && err2 == nil {
			sig = "setting-for-ignored-or-unexported-field-consulted"
		} else {
			sig += rn.rejectionClass()
		}
		res.Violate(sig, "Unpack returned %q; %s", err, ctx())
		rn.checkAtomic(target.Elem(), twin, "unexpected-error", -1, err, ctx)
		return reflect.Value{}, true
	}
	exp := reflect.New(rn.top.typ)
	exp.Elem().Set(deepCopy(rn.master))
	m := &modeler{cfgs: rn.cfgs, cfgExp: map[*field]*model.Node{}, allocs: map[reflect.Type]int{}}
	m.applyStruct(rn.top, exp.Elem(), cfg, rn.gopt.pc)
	// how many nil inline pointers of ONE struct type this call has to allocate
	most := 0
	for _, n := range m.allocs {
		if n > most {
			most = n
		}
	}
	if most >= 2 {
		res.Ev("unpacks_that_allocate_several_nil_inline_pointers_of_one_struct_type", 1)
		if most >= 4 {
			res.Ev("unpacks_that_allocate_four_or_more_nil_inline_pointers_of_one_struct_type", 1)
		}
	}
	rn.lastExp = exp.Elem()
	rn.recheck = func(got reflect.Value, twin map[uintptr]uintptr) bool {
		t := harness.NewR(0)
		k2 := &comparer{res: t, twin: twin, cfgs: rn.cfgs, cfgExp: m.cfgExp, ctx: func() string { return "" }}
		k2.cmpStruct(rn.top, rn.master, exp.Elem(), got, cfg, rn.gopt.pc, "top", "")
		return len(t.Violations) == 0
	}
	k := &comparer{res: res, twin: twin, cfgs: rn.cfgs, cfgExp: m.cfgExp, ctx: ctx, top: rn.top, gotTop: target.Elem()}
	k.cmpStruct(rn.top, rn.master, exp.Elem(), target.Elem(), cfg, rn.gopt.pc, "top", "")
	if rn.verbose {
		fmt.Printf("option %s tag %s:\n  after %s\n  model %s\n", rn.gopt.name, rn.top.tagKey, render(target.Elem()), render(exp.Elem()))
	}
	return target.Elem(), false
}

func (rn *runner) failure(cfg *cval, path []*field, fault *cval, kind string, npos, ipos int) {
	res := rn.res
	goCfg := graft(cfg, path, fault).toGo()
	var names []string
	for _, f := range path {
		names = append(names, f.goName)
	}
	base := rn.context(goCfg)
	ctx := func() string { return fmt.Sprintf("fault=%s at %s; %s", kind, strings.Join(names, "."), base()) }
	target, twin := rn.fresh()
	err, ok := rn.unpack(goCfg, target, ctx)
	if !ok {
		return
	}
	if rn.verbose {
		fmt.Printf("fault %s at %s: err=%v\n", kind, strings.Join(names, "."), err)
	}
	if err == nil {
		res.Ev("fault_not_raised", 1)
		res.SetAdd("fault_not_raised", kind)
		return
	}
	res.Ev("fault_runs", 1)
	res.SetAdd("fault_kind", kind)
	switch {
	case npos == 1:
		res.SetAdd("fault_position", "only")
	case ipos == 0:
		res.SetAdd("fault_position", "first")
	case ipos == npos-1:
		res.SetAdd("fault_position", "last")
	default:
		res.SetAdd("fault_position", "middle")
	}
	depth := "top"
	if len(path) > 1 {
		depth = "below:" + path[len(path)-2].shape()
		if path[len(path)-2].inline {
			depth = "below:inline"
		}
	}
	res.SetAdd("fault_depth", depth)
	rn.checkAtomic(target.Elem(), twin, kind, path[0].idx, err, ctx)
}

func (rn *runner) monitors(st *stype, where string) {
	res := rn.res
	if st.hasInit {
		res.SetAdd("methods", "InitDefaults@"+where)
	}
	if st.hasValidate {
		res.SetAdd("methods", "Validate@"+where)
	}
	if st.selfUnpacks {
		res.SetAdd("methods", "Unpack:"+st.typ.Name()+"@"+where)
	}
	for _, f := range st.fields {
		switch {
		case f.unexported:
			res.SetAdd("field_shape", "unexported")
			continue
		case f.ignore:
			res.SetAdd("tag_option", "ignore")
		}
		res.SetAdd("field_shape", f.shape())
		if gs := goNameStyle(f.goName); gs != "ascii" {
			res.Ev("fields_whose_go_name_starts_with_non_ascii_capital", 1)
			res.SetAdd("go_name_first_letter", gs+"@"+where)
		}
		if f.inline {
			res.SetAdd("tag_option", "inline")
		}
		if est := f.elemStruct(); est != nil && est.inlinesPointer() {
			// several values of one struct type that inlines a pointer
			res.Ev("fields_holding_values_of_a_struct_type_that_inlines_a_pointer", 1)
			res.SetAdd("place_of_struct_type_that_inlines_a_pointer", f.shape()+"@"+where)
		}
		if f.tagPol != "" {
			if f.sub != nil && f.kind != kSliceStruct {
				res.SetAdd("tag_option", f.tagPol+"(on struct field)")
			} else if f.kind == kConfig {
				res.SetAdd("tag_option", f.tagPol+"(on *Config field)")
			} else {
				res.SetAdd("tag_option", f.tagPol)
			}
		}
		if f.hint.validate != "" {
			res.SetAdd("tag_option", "validate:"+f.hint.validate)
		}
		if f.hasInit {
			res.SetAdd("methods", "InitDefaults@primitive")
		}
		if f.sub != nil && (f.kind == kStruct || f.kind == kPtrStruct) {
			w := "nested"
			if f.kind == kPtrStruct {
				w = "pointee"
			}
			rn.monitors(f.sub, w)
		}
	}
}

// ringCyclic: does following the next pointers from p (a *LibRing) come back
// to a node already seen?
func ringCyclic(p reflect.Value) bool {
	seen := map[uintptr]bool{}
	for i := 0; i < 8 && !p.IsNil(); i++ {
		if seen[p.Pointer()] {
			return true
		}
		seen[p.Pointer()] = true
		p = p.Elem().FieldByName("Next")
	}
	return false
}

// tagDifferences records in what the two tag sets of the type differ.
func tagDifferences(res *harness.R, a, b *stype) {
	for i, fa := range a.fields {
		fb := b.fields[i]
		if fa.unexported {
			continue
		}
		n := 0
		if fa.name != fb.name {
			res.SetAdd("tag_sets_differ_in", "name")
			n++
		}
		if fa.ignore != fb.ignore {
			res.SetAdd("tag_sets_differ_in", "ignore")
			n++
		}
		if fa.inline != fb.inline {
			res.SetAdd("tag_sets_differ_in", "inline")
			n++
		}
		if fa.tagPol != fb.tagPol {
			res.SetAdd("tag_sets_differ_in", "policy:"+fa.shape())
			n++
		}
		if n > 0 {
			res.Ev("fields_whose_tag_sets_differ", 1)
		}
		if fa.sub != nil && fb.sub != nil {
			tagDifferences(res, fa.sub, fb.sub)
		}
		if fa.elem != nil && fa.elem.sub != nil {
			tagDifferences(res, fa.elem.sub, fb.elem.sub)
		}
	}
}

func tagName(pol string) string {
	if pol == "default" {
		return "merge"
	}
	return pol
}

// listMonitors records which list policies the configuration exercises.
func (rn *runner) listMonitors(st *stype, c *cval, pre reflect.Value, pc polCtx) {
	if c == nil {
		return
	}
	for _, f := range st.fields {
		cv := c.fields[f]
		if f.unexported || f.ignore {
			continue
		}
		fpre := sub(pre, f.idx)
		filled := "zero"
		if fpre.IsValid() && !fpre.IsZero() {
			filled = "filled"
		}
		if cv.absent() || f.kind == kPtrStruct && f.inline && cv.real == 0 {
			// what an absent setting meets
			switch {
			case f.kind == kUntouched:
				rn.res.Ev("never_mentioned_fields_per_unpack", 1)
				rn.res.SetAdd("never_mentioned_field", f.flavour+":"+filled)
				if f.flavour == "recursive-pointer" && filled == "filled" && ringCyclic(fpre) {
					rn.res.Ev("prefilled_values_containing_themselves_per_unpack", 1)
				}
			case filled == "filled" && implementsPtr(f.typ, tIniter) && f.kind != kStruct:
				rn.res.Ev("absent_filled_fields_of_types_with_initdefaults_per_unpack", 1)
				rn.res.SetAdd("absent_filled_field_of_type_with_initdefaults", f.shape()+":"+f.typ.String())
				if f.kind == kMapPrim {
					rn.res.Ev("absent_filled_maps_of_types_with_initdefaults_per_unpack", 1)
					if f.policy(pc).pol == "replace" {
						rn.res.Ev("absent_filled_maps_of_types_with_initdefaults_under_replace_per_unpack", 1)
					}
				}
			case f.kind == kPrim && f.prim == tRegexp && filled == "filled":
				rn.res.Ev("absent_filled_regexp_by_value_per_unpack", 1)
			case f.kind == kPtrStruct && f.inline:
				rn.res.SetAdd("inline_pointer", "absent:"+filled)
			}
			continue
		}
		if ns := nameStyle(f.name); !f.inline {
			rn.res.SetAdd("mentioned_name_style", ns)
			if ns == "ascii-upper" || ns == "non-ascii-upper" {
				rn.res.Ev("settings_under_names_with_upper_case_per_unpack", 1)
			}
		}
		if gs := goNameStyle(f.goName); gs != "ascii" && (cv.form != "fields" || cv.real > 0) {
			tagged := "without-name-in-tag"
			if f.name != strings.ToLower(f.goName) {
				tagged = "with-name-in-tag"
			}
			rn.res.Ev("settings_for_fields_whose_go_name_starts_with_non_ascii_capital_per_unpack", 1)
			rn.res.SetAdd("mentioned_go_name_first_letter", gs+":"+tagged+":"+f.shape())
		}
		fpc := f.policy(pc)
		switch f.kind {
		case kMapPrim, kMapPtrStruct, kMapStruct:
			if len(cv.keys) == 0 && cv.form == "keys" {
				rn.res.Ev("empty_object_settings_for_maps_per_unpack", 1)
				rn.res.SetAdd("empty_object_setting", fpc.src+":"+fpc.pol+":"+filled)
				if fpc.pol == "replace" && fpre.IsValid() && fpre.Len() > 0 {
					rn.res.Ev("empty_object_settings_onto_filled_maps_under_replace_per_unpack", 1)
				}
			}
			rn.res.SetAdd("map_policy", fpc.src+":"+fpc.pol+":"+f.shape()+":"+filled)
			if fpc.pol == "replace" && filled == "filled" {
				rn.res.Ev("maps_replaced_onto_filled_per_unpack", 1)
			}
		case kStruct, kPtrStruct:
			if f.kind == kPtrStruct && f.inline {
				rn.res.SetAdd("inline_pointer", "mentioned:"+filled)
				rn.res.Ev("inline_pointer_structs_mentioned_per_unpack", 1)
				if filled == "zero" && onlyAfterNestedInline(f.sub, cv) {
					rn.res.Ev("nil_inline_pointers_mentioned_only_after_a_nested_inline_struct_per_unpack", 1)
				}
			}
			rn.listMonitors(f.sub, cv, deref(fpre), fpc.below())
		case kSlicePrim, kSliceStruct:
			state := "onto-filled"
			if !fpre.IsValid() || fpre.Len() == 0 {
				state = "onto-empty"
			}
			rn.res.SetAdd("list_policy", fpc.src+":"+fpc.pol+":"+f.shape()+":"+state)
			if len(cv.list) == 0 && cv.form == "list" {
				rn.res.Ev("empty_list_settings_per_unpack", 1)
				rn.res.SetAdd("empty_list_setting", fpc.src+":"+fpc.pol+":"+state)
				if replaces(fpc) && state == "onto-filled" {
					rn.res.Ev("empty_list_settings_onto_filled_lists_under_replace_per_unpack", 1)
				}
			}
			if f.kind == kSliceStruct && replaces(fpc) && state == "onto-filled" {
				rn.res.Ev("struct_lists_replaced_onto_filled", 1)
			}
			if fpc.overridesOuter() && state == "onto-filled" {
				// a tag option decides against the policy that would be in force without it
				rn.res.Ev("list_settings_where_tag_overrides_outer_policy", 1)
				rn.res.SetAdd("tag_overrides_outer_policy", "list:"+fpc.src+":"+tagName(fpc.pol)+"-over-"+fpc.over)
				if fpc.pol == "default" {
					rn.res.Ev("list_settings_where_merge_tag_overrides_outer_policy", 1)
				}
			}
		case kArrayComp:
			state := "onto-filled"
			if !fpre.IsValid() || fpre.IsZero() {
				state = "onto-zero"
			}
			rn.res.Ev("composite_array_settings", 1)
			rn.res.SetAdd("composite_array", f.shape()+":"+state+":"+fpc.src+":"+fpc.pol)
		case kConfig:
			state := "onto-filled"
			if !fpre.IsValid() || fpre.IsNil() {
				state = "onto-nil"
			}
			shape := "object"
			if cv.node != nil && cv.node.HasA {
				shape = "list"
			}
			rn.res.Ev("config_field_settings", 1)
			rn.res.SetAdd("config_field_policy", fpc.src+":"+fpc.pol+":"+shape+":"+state)
			if fpc.overridesOuter() && state == "onto-filled" {
				rn.res.Ev("config_settings_where_tag_overrides_outer_policy", 1)
				rn.res.SetAdd("tag_overrides_outer_policy", "config:"+fpc.src+":"+tagName(fpc.pol)+"-over-"+fpc.over)
				if fpc.pol == "default" {
					rn.res.Ev("config_settings_where_merge_tag_overrides_outer_policy", 1)
				}
			}
		}
	}
}

func (check) Run(seed int64, tier string, idx int, verbose bool) harness.Result {
	res := harness.NewR(idx)
	r := rand.New(rand.NewSource(harness.Mix(seed, "C13", idx)))
	tr := rand.New(rand.NewSource(harness.Mix(seed, "C13type", idx/typeGroup)))

	typ := genTop(tr)
	top := describe(typ, "config")  // the type as the default struct tag reads it
	topAlt := describe(typ, altTag) // ... and as StructTag(altTag) reads it
	rn := &runner{res: res, top: top, gopt: globals[r.Intn(len(globals))], verbose: verbose, cfgs: map[uintptr]*model.Node{}}
	g := &vgen{r: r, cfgs: rn.cfgs}
	rn.master = reflect.New(top.typ).Elem()
	g.fillStruct(top, rn.master)
	if typ == tLibRing && r.Intn(3) == 0 {
		rn.master.FieldByName("Next").Set(rn.master.Addr()) // the target itself is its next node
	}
	var stats, statsAlt cfgStats
	cfg := g.cfgStruct(top, rn.master, true, &stats)
	cfgAlt := g.cfgStruct(topAlt, rn.master, true, &statsAlt)

	res.SetAdd("global_option_of_failure_half", rn.gopt.name)
	switch {
	case top.typ == tLibTop:
		res.SetAdd("top_level", "hand-written")
	case typ == tLibRing:
		res.SetAdd("top_level", "self-referential:LibRing")
	case top.selfUnpacks:
		res.SetAdd("top_level", "self-unpacking:"+top.typ.Name())
	default:
		res.SetAdd("top_level", "generated")
	}
	rn.monitors(top, "top")
	tagDifferences(res, top, topAlt)
	res.Ev("settings_mentioned", int64(stats.mentioned))
	res.Ev("fields_unmentioned", int64(stats.unmentioned))
	res.Ev("explicit_nulls", int64(stats.nulls))
	res.Ev("settings_for_ignored_or_unexported", int64(stats.noise))

	if top.countLeaves() >= 3 && stats.mentioned >= 1 && stats.unmentioned >= 1 {
		h := fnv.New64a()
		fmt.Fprintf(h, "%s|%s|%s|%s", top.typ.String(), render(rn.master), renderGo(cfg.toGo()), rn.gopt.name)
		res.Key(strconv.FormatUint(h.Sum64(), 16))
	}
	if idx < 2 {
		res.Sample = map[string]interface{}{"type": clip(top.typ.String(), 3000), "pre_filled": clip(render(rn.master), 3000), "config": clip(renderGo(cfg.toGo()), 3000), "option": rn.gopt.name}
	}

	if verbose {
		fmt.Printf("type   %v\nconfig %s\npre    %s\n", top.typ, renderGo(cfg.toGo()), render(rn.master))
	}
	// success half: under every global option with the default struct tag;
	// the same type is also unpacked under StructTag(altTag) -- once somewhere
	// among those calls (before the first one included) and once after them --
	// and finally under the default tag again. Failure half under the drawn
	// global option and one struct tag.
	drawn := rn.gopt
	type step struct {
		st  *stype
		cfg *cval
		o   globalOpt
	}
	var steps []step
	for _, o := range globals {
		steps = append(steps, step{top, cfg, o})
	}
	at := r.Intn(len(steps) + 1)
	steps = append(steps[:at], append([]step{{topAlt, cfgAlt, globals[r.Intn(len(globals))]}}, steps[at:]...)...)
	steps = append(steps, step{topAlt, cfgAlt, drawn}, step{top, cfg, drawn})
	seq := ""
	for i, sp := range steps {
		rn.top, rn.gopt = sp.st, sp.o
		rn.listMonitors(sp.st, sp.cfg, rn.master, sp.o.pc)
		rn.success(sp.cfg)
		if i > 0 && steps[i-1].st != sp.st {
			res.Ev("struct_tag_switches_between_unpacks_of_one_type", 1)
		}
		if sp.st == topAlt {
			res.Ev("unpacks_under_second_struct_tag", 1)
			seq += "a"
		} else {
			seq += "c"
		}
	}
	res.SetAdd("struct_tag_sequence", seq)
	rn.gopt = drawn
	rn.top = top
	if r.Intn(3) == 0 {
		rn.top, cfg = topAlt, cfgAlt
		top = topAlt
	}
	res.SetAdd("struct_tag_of_failure_half", rn.top.tagKey)

	var pos [][]*field
	positions(top, nil, &pos)
	for i, p := range pos {
		// the pre-filled value the faulty setting will meet
		var pre reflect.Value
		cur := rn.master
		for j, f := range p {
			if !cur.IsValid() {
				break
			}
			if j == len(p)-1 {
				pre = cur.Field(f.idx)
			} else {
				cur = deref(cur.Field(f.idx))
			}
		}
		// two draws per position (the second only if it is another kind of fault)
		first := ""
		for d := 0; d < 2; d++ {
			fault, kind := g.faultFor(p[len(p)-1], pre)
			if fault == nil || kind == first {
				continue
			}
			first = kind
			rn.failure(cfg, p, fault, kind, len(pos), i)
			if rn.top.selfUnpacks {
				res.Ev("fault_runs_into_self_unpacking_top_level", 1)
			}
		}
	}

	topLevelSlice(res, r, rn.gopt, verbose)
	topLevelMap(res, r, rn.gopt)
	return res.Done()
}

// ---------------------------------------------------------------------------
// top-level slice / map targets under the same global option

func topLevelSlice(res *harness.R, r *rand.Rand, gopt globalOpt, verbose bool) {
	g := &vgen{r: r}
	et := []reflect.Type{tInt, tString}[r.Intn(2)]
	f := &field{typ: reflect.SliceOf(et), kind: kSlicePrim, prim: et, goName: "(top-level slice)"}
	pre := reflect.New(f.typ).Elem()
	g.fillField(f, pre)
	cv := &cval{form: "list"}
	n := 1 + r.Intn(3)
	if r.Intn(6) == 0 {
		n = 0 // the empty list
	}
	for i := 0; i < n; i++ {
		cv.list = append(cv.list, g.setting(et, hint{}))
	}
	run := func(c *cval) (reflect.Value, error, bool) {
		target := reflect.New(f.typ)
		target.Elem().Set(deepCopy(pre))
		cfg, cerr := ucfg.NewFrom(c.toGo(), ucfg.PathSep("."))
		if cerr != nil {
			res.Inconc("NewFrom failed on a generated list: %v", cerr)
			return target, nil, false
		}
		var err error
		panicked, pv, where := harness.Safe(func() { err = cfg.Unpack(target.Interface(), gopt.opts...) })
		res.Eval(1)
		if panicked {
			res.Violate("panic:Unpack", "panic %q at %s; top-level %v pre-filled %s config %s option %s", pv, where, f.typ, render(pre), renderGo(c.toGo()), gopt.name)
			return target, nil, false
		}
		return target, err, true
	}
	ctx := func(c *cval) string {
		return fmt.Sprintf("Unpack(&%v, %s) pre-filled %s config %s", f.typ, gopt.name, render(pre), renderGo(c.toGo()))
	}
	if target, err, ok := run(cv); ok {
		m := &modeler{}
		exp := m.mergeList(f, pre, cv, gopt.pc.pol)
		def := m.mergeList(f, pre, cv, "default")
		state := "onto-filled"
		if pre.Len() == 0 {
			state = "onto-empty"
		}
		res.SetAdd("list_policy", "global-toplevel:"+gopt.pc.pol+":"+state)
		if len(cv.list) == 0 {
			res.Ev("empty_list_settings_per_unpack", 1)
			res.SetAdd("empty_list_setting", "global-toplevel:"+gopt.pc.pol+":"+state)
		}
		switch {
		case err != nil:
			res.Violate("valid-config-rejected:toplevel-slice", "%s returned %q", ctx(cv), err)
		case !equal(exp, target.Elem(), false):
			sig := listSig(gopt.pc, "toplevel-slice", equal(def, target.Elem(), false))
			if len(cv.list) == 0 {
				sig = "empty-list-setting-changes-list:global-toplevel-slice:" + gopt.pc.pol
				if replaces(gopt.pc) && pre.Len() > 0 && equal(pre, target.Elem(), false) {
					sig = "empty-list-setting-does-not-replace-old-elements:global-toplevel-slice:" + gopt.pc.pol
				}
			}
			res.Violate(sig, "%s gave %s want %s (index-wise merge would give %s)", ctx(cv), render(target.Elem()), render(exp), render(def))
		}
		if verbose {
			fmt.Printf("%s -> %s (model %s) err=%v\n", ctx(cv), render(target.Elem()), render(exp), err)
		}
	}
	bad := cv.clone()
	v, kind := badPrim(r, et, hint{})
	bad.list = append(bad.list, rawVal(v))
	if target, err, ok := run(bad); ok {
		if err == nil {
			res.Ev("fault_not_raised", 1)
			res.SetAdd("fault_not_raised", "toplevel-slice:"+kind)
		} else if !equal(pre, target.Elem(), true) {
			res.Violate("slice-modified-on-failure:toplevel-slice", "%s returned %q but the slice is now %s", ctx(bad), err, render(target.Elem()))
		} else {
			res.Ev("fault_runs", 1)
			res.SetAdd("fault_kind", "toplevel-slice:"+kind)
		}
	}
}

func topLevelMap(res *harness.R, r *rand.Rand, gopt globalOpt) {
	g := &vgen{r: r}
	f := &field{typ: reflect.MapOf(tString, tInt), kind: kMapPrim, prim: tInt, goName: "(top-level map)"}
	pre := reflect.New(f.typ).Elem()
	g.fillField(f, pre)
	var dummy cfgStats
	cv := g.cfgField(f, pre, &dummy)
	target := reflect.New(f.typ)
	target.Elem().Set(deepCopy(pre))
	arg := target.Interface()
	how := "Unpack(&m)"
	if !pre.IsNil() && r.Intn(2) == 0 {
		arg, how = target.Elem().Interface(), "Unpack(m)"
	}
	ctx := fmt.Sprintf("%s option %s pre-filled %s config %s", how, gopt.name, render(pre), renderGo(cv.toGo()))
	cfg, cerr := ucfg.NewFrom(cv.toGo(), ucfg.PathSep("."))
	if cerr != nil {
		res.Inconc("NewFrom failed on a generated map: %v", cerr)
		return
	}
	var err error
	panicked, pv, where := harness.Safe(func() { err = cfg.Unpack(arg, gopt.opts...) })
	res.Eval(1)
	switch {
	case panicked:
		res.Violate("panic:Unpack", "panic %q at %s; %s", pv, where, ctx)
		return
	case err != nil:
		res.Violate("valid-config-rejected:toplevel-map", "%s returned %q", ctx, err)
		return
	}
	got := target.Elem()
	for k, e := range cv.keys {
		gv := got.MapIndex(reflect.ValueOf(k))
		if !gv.IsValid() || !equal(e.want, gv, true) {
			res.Violate("mentioned-field-wrong:toplevel-map", "%s: entry %q is %s; map now %s", ctx, k, render(e.want), render(got))
		}
	}
	if gopt.pc.pol == "replace" && len(cv.keys) == 0 && got.Len() > 0 {
		// the empty object under replace may also leave the map alone (not pinned)
		res.Ev("empty_object_under_replace_left_the_old_entries(not pinned)", 1)
	} else if gopt.pc.pol == "replace" {
		// old dictionaries are replaced: the map holds the new entries alone
		for _, k := range got.MapKeys() {
			if _, mentioned := cv.keys[k.String()]; !mentioned {
				res.Violate("map-not-replaced-under-replace-policy:global:toplevel-map", "%s: entry %q is still there; map now %s", ctx, k.String(), render(got))
				break
			}
		}
		return
	}
	if !pre.IsNil() {
		for _, k := range pre.MapKeys() {
			if _, mentioned := cv.keys[k.String()]; mentioned {
				continue
			}
			gv := got.MapIndex(k)
			if !gv.IsValid() || !equal(pre.MapIndex(k), gv, true) {
				res.Violate("unmentioned-field-changed:toplevel-map-entry", "%s: entry %q changed; map now %s", ctx, k.String(), render(got))
			}
		}
	}
	for _, k := range got.MapKeys() {
		_, mentioned := cv.keys[k.String()]
		if !mentioned && (pre.IsNil() || !pre.MapIndex(k).IsValid()) {
			res.Violate("unmentioned-field-changed:toplevel-map-extra-entry", "%s: entry %q appeared; map now %s", ctx, k.String(), render(got))
		}
	}
}
