package c13

import (
	"errors"
	"fmt"
	"math"
	"math/rand"
	"reflect"
	"strconv"
	"time"

	ucfg "github.com/elastic/go-ucfg"
)

// Hand-written "library" types. reflect.StructOf cannot create unexported
// fields or methods, so everything that needs them (unexported fields,
// InitDefaults, Validate) lives here; generated types use these as ordinary
// named fields, and LibTop is also used as a top-level target.
//
// The c13 struct tag is a hint for this package's generators only (go-ucfg
// ignores it): "lo:hi:bad:via" gives the range of valid numbers (seconds for
// durations), one value that fails validation and whether the failure comes
// from a validate tag ("tag") or a Validate method ("method");
// "str:<bad>:via" asks for non-empty strings and names the failing string.
//
// All InitDefaults methods are idempotent (calling them twice gives the same
// state as calling them once) because the doc comment of Unpack does not say
// how often they run.

// LibConn: unconditional defaults, an ignored field, unexported fields.
type LibConn struct {
	Host    string        `config:"host" alt:"hostname"`
	Port    int           `config:"port" alt:",ignore"`
	Timeout time.Duration `config:"timeout"`
	Keep    string        `config:"keep,ignore" alt:"keep"`
	secret  string
	hits    int
}

func (c *LibConn) InitDefaults() {
	c.Port = 9200
	c.Timeout = 30 * time.Second
}

// LibLimits: conditional defaults (the usual idiom), InitDefaults touching an
// unexported field, a Validate method relating two fields, a tagged list.
type LibLimits struct {
	Lo   int      `config:"lo" c13:"0:50:500:method"`
	Hi   int      `config:"hi" c13:"60:200:-7:method"`
	Tags []string `config:"tags,append" alt:"tags,replace"`
	note string
	seen bool
}

func (l *LibLimits) InitDefaults() {
	if l.Hi == 0 {
		l.Hi = 100
	}
	l.seen = true
}

func (l *LibLimits) Validate() error {
	if l.Lo > l.Hi {
		return errors.New("lo exceeds hi")
	}
	return nil
}

// LibPlain: no methods; exported, ignored (option-only tag) and unexported fields.
type LibPlain struct {
	Name   string `config:"name"`
	N      int64  `config:"n"`
	Skip   int    `config:",ignore"`
	hidden int
	tag    string
	libMeta
}

// libMeta is embedded unexported: its promoted field Rev is not a setting.
type libMeta struct {
	Rev int `config:"rev"`
}

// LibPort: a primitive with InitDefaults.
type LibPort int

func (p *LibPort) InitDefaults() { *p = 9200 }

// Named primitives, a named list and a named array type with other kinds of
// InitDefaults: conditional (the usual idiom) and doing nothing at all. Applied
// to the value a field holds they leave a pre-filled value alone.
type LibCondPort int

func (p *LibCondPort) InitDefaults() {
	if *p == 0 {
		*p = 9200
	}
}

type LibNoopInt int

func (*LibNoopInt) InitDefaults() {}

type LibNoopStr string

func (*LibNoopStr) InitDefaults() {}

type LibList []int

func (*LibList) InitDefaults() {}

type LibArr [2]int

func (*LibArr) InitDefaults() {}

// Named map types with InitDefaults: doing nothing, and setting one entry
// whatever the map holds (idempotent; the key is outside the key pool of the
// configurations). Only used as struct fields held by value.
type LibMap map[string]int

func (*LibMap) InitDefaults() {}

type LibDefMap map[string]int

func (m *LibDefMap) InitDefaults() {
	if *m == nil {
		*m = LibDefMap{}
	}
	(*m)["dflt"] = 1
}

// LibIniter: an interface type that lists InitDefaults (the type of fields no
// configuration of this package mentions; they hold nil or a *LibConn).
type LibIniter interface{ InitDefaults() }

// LibRing refers to its own type: pre-filled values may contain themselves.
// No configuration mentions next.
type LibRing struct {
	V    int      `config:"v"`
	W    string   `config:"w"`
	Next *LibRing `config:"next"`
}

func newLibRing(r *rand.Rand) LibRing {
	n := &LibRing{}
	if maybe(r) {
		n.V = 1 + r.Intn(99)
	}
	if maybe(r) {
		n.W = word(r)
	}
	switch r.Intn(4) {
	case 0: // nil
	case 1: // a chain
		n.Next = &LibRing{V: 1 + r.Intn(99)}
	case 2: // refers to itself
		n.Next = n
	case 3: // a ring of two
		n.Next = &LibRing{V: 1 + r.Intn(99), Next: n}
	}
	return *n // the copy refers into the ring
}

var (
	tLibCondPort = reflect.TypeOf(LibCondPort(0))
	tLibNoopInt  = reflect.TypeOf(LibNoopInt(0))
	tLibNoopStr  = reflect.TypeOf(LibNoopStr(""))
	tLibList     = reflect.TypeOf(LibList(nil))
	tLibArr      = reflect.TypeOf(LibArr{})
	tLibMap      = reflect.TypeOf(LibMap(nil))
	tLibDefMap   = reflect.TypeOf(LibDefMap(nil))
	tLibIniter   = reflect.TypeOf((*LibIniter)(nil)).Elem()
	tLibRing     = reflect.TypeOf(LibRing{})
)

// LibTop: a hand-written top-level target.
type LibTop struct {
	Title   string            `config:"title" validate:"nonzero" c13:"str:forbidden:method"`
	Conn    LibConn           `config:"conn"`
	PConn   *LibConn          `config:"pconn"`
	Limits  LibLimits         `config:"limits"`
	PLimits *LibLimits        `config:"plimits"`
	Plain   LibPlain          `config:",inline"`
	Ports   []int             `config:"ports"`
	Extra   []string          `config:"extra,prepend" alt:"more"`
	Labels  map[string]string `config:"labels"`
	Port    LibPort           `config:"port"`
	Weights [3]float64        `config:"weights"`
	Frozen  []int             `config:"frozen,ignore" alt:"frozen,append"`
	Max     int               `config:"max" validate:"min=1" c13:"1:100:0:tag"`
	count   int
	label   string
}

func (t *LibTop) InitDefaults() {
	if t.Max == 0 {
		t.Max = 10
	}
	if t.label == "" {
		t.label = "unset"
	}
}

func (t *LibTop) Validate() error {
	if t.Title == "forbidden" {
		return errors.New("forbidden title")
	}
	return nil
}

// ---------------------------------------------------------------------------
// Types that unpack themselves. On success each of them does what the library
// does for an ordinary struct with the same fields (a setting named like the
// lower-cased field is stored into the field, a null or absent one leaves it),
// so the model of the statement applies unchanged. They store setting by
// setting, in declaration order, and fail only afterwards: a setting that does
// not convert fails after the earlier ones were stored, the consistency rule
// (lo <= hi) is checked after everything was stored -- by Unpack itself
// (LibSelf), by a Validate method (LibSelfV).

// LibSelf: Unpack(*ucfg.Config), rejects inconsistent settings itself.
type LibSelf struct {
	Lo   int    `config:"lo" c13:"0:50:500:method"`
	Hi   int    `config:"hi" c13:"60:200:-7:method"`
	Name string `config:"name"`
	note string
}

func (s *LibSelf) Unpack(c *ucfg.Config) error {
	var lo struct {
		V *int `config:"lo"`
	}
	if err := c.Unpack(&lo); err != nil {
		return err
	}
	if lo.V != nil {
		s.Lo = *lo.V
	}
	var hi struct {
		V *int `config:"hi"`
	}
	if err := c.Unpack(&hi); err != nil {
		return err
	}
	if hi.V != nil {
		s.Hi = *hi.V
	}
	var name struct {
		V *string `config:"name"`
	}
	if err := c.Unpack(&name); err != nil {
		return err
	}
	if name.V != nil {
		s.Name = *name.V
	}
	if s.Hi != 0 && s.Lo > s.Hi { // Hi == 0: not set yet (a freshly allocated value)
		return errors.New("lo exceeds hi")
	}
	return nil
}

// LibSelfV: Unpack(*ucfg.Config) stores what converts, the Validate method
// rejects inconsistent results.
type LibSelfV struct {
	From  int    `config:"from" c13:"0:50:500:method"`
	To    int    `config:"to" c13:"60:200:-7:method"`
	Label string `config:"label"`
	calls int
}

func (w *LibSelfV) Unpack(c *ucfg.Config) error {
	var from struct {
		V *int `config:"from"`
	}
	if err := c.Unpack(&from); err != nil {
		return err
	}
	if from.V != nil {
		w.From = *from.V
	}
	var to struct {
		V *int `config:"to"`
	}
	if err := c.Unpack(&to); err != nil {
		return err
	}
	if to.V != nil {
		w.To = *to.V
	}
	var label struct {
		V *string `config:"label"`
	}
	if err := c.Unpack(&label); err != nil {
		return err
	}
	if label.V != nil {
		w.Label = *label.V
	}
	return nil
}

func (w *LibSelfV) Validate() error {
	if w.To != 0 && w.From > w.To { // To == 0: not set yet (a freshly allocated value)
		return errors.New("from exceeds to")
	}
	return nil
}

// LibSelfAny: the generic Unpack(interface{}), handed a map; converts only
// what the generator spells (integers as int64 / uint64 / decimal string,
// strings as string or integer, booleans as bool).
type LibSelfAny struct {
	N   int    `config:"n"`
	S   string `config:"s"`
	On  bool   `config:"on"`
	raw int
}

func (a *LibSelfAny) Unpack(v interface{}) error {
	m, ok := v.(map[string]interface{})
	if !ok {
		return fmt.Errorf("object expected, got %T", v)
	}
	switch x := m["n"].(type) {
	case nil:
	case int64:
		a.N = int(x)
	case uint64:
		if x > math.MaxInt64 {
			return errors.New("n overflows")
		}
		a.N = int(x)
	case string:
		i, err := strconv.ParseInt(x, 10, 64)
		if err != nil {
			return err
		}
		a.N = int(i)
	default:
		return fmt.Errorf("n: number expected, got %T", x)
	}
	switch x := m["s"].(type) {
	case nil:
	case string:
		a.S = x
	case int64:
		a.S = strconv.FormatInt(x, 10)
	case uint64:
		a.S = strconv.FormatUint(x, 10)
	default:
		return fmt.Errorf("s: string expected, got %T", x)
	}
	switch x := m["on"].(type) {
	case nil:
	case bool:
		a.On = x
	default:
		return fmt.Errorf("on: bool expected, got %T", x)
	}
	return nil
}

var (
	tLibSelf    = reflect.TypeOf(LibSelf{})
	tLibSelfV   = reflect.TypeOf(LibSelfV{})
	tLibSelfAny = reflect.TypeOf(LibSelfAny{})
)

var selfStructs = []reflect.Type{tLibSelf, tLibSelfV, tLibSelfAny}

func newLibSelf(r *rand.Rand) LibSelf {
	s := LibSelf{Hi: 60 + r.Intn(141)}
	if maybe(r) {
		s.Lo = 1 + r.Intn(50)
	}
	if maybe(r) {
		s.Name = word(r)
	}
	if maybe(r) {
		s.note = word(r)
	}
	return s
}

func newLibSelfV(r *rand.Rand) LibSelfV {
	w := LibSelfV{To: 60 + r.Intn(141)}
	if maybe(r) {
		w.From = 1 + r.Intn(50)
	}
	if maybe(r) {
		w.Label = word(r)
	}
	if maybe(r) {
		w.calls = 1 + r.Intn(99)
	}
	return w
}

func newLibSelfAny(r *rand.Rand) LibSelfAny {
	var a LibSelfAny
	if maybe(r) {
		a.N = r.Intn(2000) - 1000
	}
	if maybe(r) {
		a.S = word(r)
	}
	a.On = r.Intn(2) == 0
	if maybe(r) {
		a.raw = 1 + r.Intn(99)
	}
	return a
}

var (
	tLibConn   = reflect.TypeOf(LibConn{})
	tLibLimits = reflect.TypeOf(LibLimits{})
	tLibPlain  = reflect.TypeOf(LibPlain{})
	tLibPort   = reflect.TypeOf(LibPort(0))
	tLibTop    = reflect.TypeOf(LibTop{})
)

var libStructs = []reflect.Type{tLibConn, tLibLimits, tLibPlain, tLibSelf, tLibSelfV, tLibSelfAny, tLibRing}

var namedPrims = []reflect.Type{tLibPort, tLibPort, tLibCondPort, tLibNoopInt, tLibNoopStr}

var words = []string{"alpha", "beta gamma", "x1", "é-ü", "/usr/local", "10.0.0.1:9200", "q#r", "Zed", "日本", "a_b", "true", "123", " lead", "0x1F"}

func word(r *rand.Rand) string { return words[r.Intn(len(words))] }

func maybe(r *rand.Rand) bool { return r.Intn(3) > 0 }

func newLibConn(r *rand.Rand) LibConn {
	var c LibConn
	if maybe(r) {
		c.Host = word(r)
	}
	if maybe(r) {
		c.Port = 1 + r.Intn(60000)
	}
	if maybe(r) {
		c.Timeout = time.Duration(1+r.Intn(500)) * time.Millisecond
	}
	if maybe(r) {
		c.Keep = word(r)
	}
	if maybe(r) {
		c.secret = word(r)
	}
	if maybe(r) {
		c.hits = 1 + r.Intn(1000)
	}
	return c
}

func newLibLimits(r *rand.Rand) LibLimits {
	var l LibLimits
	if maybe(r) {
		l.Lo = 1 + r.Intn(50)
	}
	if maybe(r) {
		l.Hi = 60 + r.Intn(141)
	} else {
		// Hi == 0 is the state InitDefaults turns into 100; behind a pointer
		// without a setting InitDefaults does not run, so it has to pass
		// Validate as it is
		l.Lo = 0
	}
	if maybe(r) {
		for i, n := 0, 1+r.Intn(3); i < n; i++ {
			l.Tags = append(l.Tags, word(r))
		}
	}
	if maybe(r) {
		l.note = word(r)
	}
	l.seen = r.Intn(2) == 0
	return l
}

func newLibPlain(r *rand.Rand) LibPlain {
	var p LibPlain
	if maybe(r) {
		p.Name = word(r)
	}
	if maybe(r) {
		p.N = int64(r.Intn(2000) - 1000)
	}
	if maybe(r) {
		p.Skip = 1 + r.Intn(99)
	}
	if maybe(r) {
		p.hidden = 1 + r.Intn(99)
	}
	if maybe(r) {
		p.tag = word(r)
	}
	if maybe(r) {
		p.Rev = 1 + r.Intn(99)
	}
	return p
}

func newLibTop(r *rand.Rand) LibTop {
	t := LibTop{Title: word(r), Conn: newLibConn(r), Limits: newLibLimits(r), Plain: newLibPlain(r)}
	if maybe(r) {
		c := newLibConn(r)
		t.PConn = &c
	}
	if maybe(r) {
		l := newLibLimits(r)
		t.PLimits = &l
	}
	if maybe(r) {
		t.Ports = []int{}
		for i, n := 0, r.Intn(5); i < n; i++ {
			t.Ports = append(t.Ports, 1+r.Intn(9000))
		}
	}
	if maybe(r) {
		for i, n := 0, 1+r.Intn(3); i < n; i++ {
			t.Extra = append(t.Extra, word(r))
		}
	}
	if maybe(r) {
		t.Labels = map[string]string{}
		for i, n := 0, r.Intn(4); i < n; i++ {
			t.Labels[mapKeys[r.Intn(len(mapKeys))]] = word(r)
		}
	}
	if maybe(r) {
		t.Port = LibPort(1 + r.Intn(9000))
	}
	if maybe(r) {
		for i := range t.Weights {
			t.Weights[i] = float64(r.Intn(800)-400) / 4
		}
	}
	if maybe(r) {
		t.Frozen = []int{r.Intn(9), r.Intn(9)}
	}
	if maybe(r) {
		t.Max = 1 + r.Intn(100) // else 0: InitDefaults turns it into 10 before min=1 is checked
	}
	if maybe(r) {
		t.count = 1 + r.Intn(99)
	}
	if maybe(r) {
		t.label = word(r)
	}
	return t
}

// libCtor builds a pre-filled value (unexported fields included) of a
// hand-written struct type; nil for every other type.
func libCtor(t reflect.Type) func(*rand.Rand) reflect.Value {
	switch t {
	case tLibConn:
		return func(r *rand.Rand) reflect.Value { return reflect.ValueOf(newLibConn(r)) }
	case tLibLimits:
		return func(r *rand.Rand) reflect.Value { return reflect.ValueOf(newLibLimits(r)) }
	case tLibPlain:
		return func(r *rand.Rand) reflect.Value { return reflect.ValueOf(newLibPlain(r)) }
	case tLibTop:
		return func(r *rand.Rand) reflect.Value { return reflect.ValueOf(newLibTop(r)) }
	case tLibRing:
		return func(r *rand.Rand) reflect.Value { return reflect.ValueOf(newLibRing(r)) }
	case tLibSelf:
		return func(r *rand.Rand) reflect.Value { return reflect.ValueOf(newLibSelf(r)) }
	case tLibSelfV:
		return func(r *rand.Rand) reflect.Value { return reflect.ValueOf(newLibSelfV(r)) }
	case tLibSelfAny:
		return func(r *rand.Rand) reflect.Value { return reflect.ValueOf(newLibSelfAny(r)) }
	}
	return nil
}
