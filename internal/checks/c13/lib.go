package c13

import (
	"errors"
	"math/rand"
	"reflect"
	"time"
)

// Hand-written "library" types. reflect.StructOf cannot create unexported
// fields or methods, so everything that needs them (unexported fields,
// InitDefaults, Validate) lives here; generated types use these as ordinary
// named fields, and LibTop is also used as a top-level target.
//
// The c13 struct tag is a hint for this package's generators only (go-ucfg
// ignores it): "lo:hi:bad:via" gives the range of valid numbers (seconds for
// durations), one value that fails validation and whether the failure comes
// from a validate tag ("tag") or a Validate method ("method");
// "str:<bad>:via" asks for non-empty strings and names the failing string.
//
// All InitDefaults methods are idempotent (calling them twice gives the same
// state as calling them once) because the doc comment of Unpack does not say
// how often they run.

// LibConn: unconditional defaults, an ignored field, unexported fields.
type LibConn struct {
	Host    string        `config:"host"`
	Port    int           `config:"port"`
	Timeout time.Duration `config:"timeout"`
	Keep    string        `config:"keep,ignore"`
	secret  string
	hits    int
}

func (c *LibConn) InitDefaults() {
	c.Port = 9200
	c.Timeout = 30 * time.Second
}

// LibLimits: conditional defaults (the usual idiom), InitDefaults touching an
// unexported field, a Validate method relating two fields, a tagged list.
type LibLimits struct {
	Lo   int      `config:"lo" c13:"0:50:500:method"`
	Hi   int      `config:"hi" c13:"60:200:-7:method"`
	Tags []string `config:"tags,append"`
	note string
	seen bool
}

func (l *LibLimits) InitDefaults() {
	if l.Hi == 0 {
		l.Hi = 100
	}
	l.seen = true
}

func (l *LibLimits) Validate() error {
	if l.Lo > l.Hi {
		return errors.New("lo exceeds hi")
	}
	return nil
}

// LibPlain: no methods; exported, ignored (option-only tag) and unexported fields.
type LibPlain struct {
	Name   string `config:"name"`
	N      int64  `config:"n"`
	Skip   int    `config:",ignore"`
	hidden int
	tag    string
	libMeta
}

// libMeta is embedded unexported: its promoted field Rev is not a setting.
type libMeta struct {
	Rev int `config:"rev"`
}

// LibPort: a primitive with InitDefaults.
type LibPort int

func (p *LibPort) InitDefaults() { *p = 9200 }

// LibTop: a hand-written top-level target.
type LibTop struct {
	Title   string            `config:"title" validate:"nonzero" c13:"str:forbidden:method"`
	Conn    LibConn           `config:"conn"`
	PConn   *LibConn          `config:"pconn"`
	Limits  LibLimits         `config:"limits"`
	PLimits *LibLimits        `config:"plimits"`
	Plain   LibPlain          `config:",inline"`
	Ports   []int             `config:"ports"`
	Extra   []string          `config:"extra,prepend"`
	Labels  map[string]string `config:"labels"`
	Port    LibPort           `config:"port"`
	Weights [3]float64        `config:"weights"`
	Frozen  []int             `config:"frozen,ignore"`
	Max     int               `config:"max" validate:"min=1" c13:"1:100:0:tag"`
	count   int
	label   string
}

func (t *LibTop) InitDefaults() {
	if t.Max == 0 {
		t.Max = 10
	}
	if t.label == "" {
		t.label = "unset"
	}
}

func (t *LibTop) Validate() error {
	if t.Title == "forbidden" {
		return errors.New("forbidden title")
	}
	return nil
}

var (
	tLibConn   = reflect.TypeOf(LibConn{})
	tLibLimits = reflect.TypeOf(LibLimits{})
	tLibPlain  = reflect.TypeOf(LibPlain{})
	tLibPort   = reflect.TypeOf(LibPort(0))
	tLibTop    = reflect.TypeOf(LibTop{})
)

var libStructs = []reflect.Type{tLibConn, tLibLimits, tLibPlain}

var words = []string{"alpha", "beta gamma", "x1", "é-ü", "/usr/local", "10.0.0.1:9200", "q#r", "Zed", "日本", "a_b", "true", "123", " lead", "0x1F"}

func word(r *rand.Rand) string { return words[r.Intn(len(words))] }

func maybe(r *rand.Rand) bool { return r.Intn(3) > 0 }

func newLibConn(r *rand.Rand) LibConn {
	var c LibConn
	if maybe(r) {
		c.Host = word(r)
	}
	if maybe(r) {
		c.Port = 1 + r.Intn(60000)
	}
	if maybe(r) {
		c.Timeout = time.Duration(1+r.Intn(500)) * time.Millisecond
	}
	if maybe(r) {
		c.Keep = word(r)
	}
	if maybe(r) {
		c.secret = word(r)
	}
	if maybe(r) {
		c.hits = 1 + r.Intn(1000)
	}
	return c
}

func newLibLimits(r *rand.Rand) LibLimits {
	var l LibLimits
	if maybe(r) {
		l.Lo = 1 + r.Intn(50)
	}
	if maybe(r) {
		l.Hi = 60 + r.Intn(141)
	} else {
		// Hi == 0 is the state InitDefaults turns into 100; behind a pointer
		// without a setting InitDefaults does not run, so it has to pass
		// Validate as it is
		l.Lo = 0
	}
	if maybe(r) {
		for i, n := 0, 1+r.Intn(3); i < n; i++ {
			l.Tags = append(l.Tags, word(r))
		}
	}
	if maybe(r) {
		l.note = word(r)
	}
	l.seen = r.Intn(2) == 0
	return l
}

func newLibPlain(r *rand.Rand) LibPlain {
	var p LibPlain
	if maybe(r) {
		p.Name = word(r)
	}
	if maybe(r) {
		p.N = int64(r.Intn(2000) - 1000)
	}
	if maybe(r) {
		p.Skip = 1 + r.Intn(99)
	}
	if maybe(r) {
		p.hidden = 1 + r.Intn(99)
	}
	if maybe(r) {
		p.tag = word(r)
	}
	if maybe(r) {
		p.Rev = 1 + r.Intn(99)
	}
	return p
}

func newLibTop(r *rand.Rand) LibTop {
	t := LibTop{Title: word(r), Conn: newLibConn(r), Limits: newLibLimits(r), Plain: newLibPlain(r)}
	if maybe(r) {
		c := newLibConn(r)
		t.PConn = &c
	}
	if maybe(r) {
		l := newLibLimits(r)
		t.PLimits = &l
	}
	if maybe(r) {
		t.Ports = []int{}
		for i, n := 0, r.Intn(5); i < n; i++ {
			t.Ports = append(t.Ports, 1+r.Intn(9000))
		}
	}
	if maybe(r) {
		for i, n := 0, 1+r.Intn(3); i < n; i++ {
			t.Extra = append(t.Extra, word(r))
		}
	}
	if maybe(r) {
		t.Labels = map[string]string{}
		for i, n := 0, r.Intn(4); i < n; i++ {
			t.Labels[mapKeys[r.Intn(len(mapKeys))]] = word(r)
		}
	}
	if maybe(r) {
		t.Port = LibPort(1 + r.Intn(9000))
	}
	if maybe(r) {
		for i := range t.Weights {
			t.Weights[i] = float64(r.Intn(800)-400) / 4
		}
	}
	if maybe(r) {
		t.Frozen = []int{r.Intn(9), r.Intn(9)}
	}
	if maybe(r) {
		t.Max = 1 + r.Intn(100) // else 0: InitDefaults turns it into 10 before min=1 is checked
	}
	if maybe(r) {
		t.count = 1 + r.Intn(99)
	}
	if maybe(r) {
		t.label = word(r)
	}
	return t
}

// libCtor builds a pre-filled value (unexported fields included) of a
// hand-written struct type; nil for every other type.
func libCtor(t reflect.Type) func(*rand.Rand) reflect.Value {
	switch t {
	case tLibConn:
		return func(r *rand.Rand) reflect.Value { return reflect.ValueOf(newLibConn(r)) }
	case tLibLimits:
		return func(r *rand.Rand) reflect.Value { return reflect.ValueOf(newLibLimits(r)) }
	case tLibPlain:
		return func(r *rand.Rand) reflect.Value { return reflect.ValueOf(newLibPlain(r)) }
	case tLibTop:
		return func(r *rand.Rand) reflect.Value { return reflect.ValueOf(newLibTop(r)) }
	}
	return nil
}
