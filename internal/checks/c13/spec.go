package c13

import (
	"fmt"
	"math/rand"
	"reflect"
	"regexp"
	"strconv"
	"strings"
	"time"
	"unicode"
	"unicode/utf8"

	ucfg "github.com/elastic/go-ucfg"
)

// ---------------------------------------------------------------------------
// type descriptions (derived from reflect types by reading the tags the way
// the doc comment of Unpack describes them)

type kind int

const (
	kPrim kind = iota
	kPtrPrim
	kStruct
	kPtrStruct
	kSlicePrim
	kSliceStruct
	kArrayPrim
	kArrayComp // [N]T with T a struct, a map of primitives or a list of primitives (described by elem)
	kMapPrim
	kMapPtrStruct
	kMapStruct
	kConfig // *ucfg.Config: a captured sub-configuration, merged per policy
	// kUntouched: an exported field the configurations never mention (see
	// flavour): it has to come out of every Unpack as it went in
	kUntouched
	kOpaque // unexported field: never generated for, only compared
)

type hint struct {
	has      bool
	str      bool // string hint: non-empty good values, badStr fails
	lo, hi   int64
	bad      int64
	badStr   string
	viaMeth  bool   // the bad value fails a Validate method, not a validate tag
	validate string // first validator name of the validate tag (for the fault kind)
}

type field struct {
	idx        int
	goName     string
	name       string // configuration name
	typ        reflect.Type
	kind       kind
	prim       reflect.Type // primitive (element) type of the prim-ish kinds
	sub        *stype       // struct description of the struct-ish kinds
	unexported bool
	ignore     bool
	inline     bool
	tagPol     string // "", merge, replace, append, prepend
	hint       hint
	hasInit    bool   // primitive type with InitDefaults
	elemPtr    bool   // kSliceStruct: the elements are pointers to structs
	elem       *field // kArrayComp: description of one element (kStruct, kMapPrim or kSlicePrim)
	flavour    string // kUntouched: interface-with-initdefaults, recursive-pointer, config-by-value
	owner      *stype
}

type stype struct {
	typ         reflect.Type
	tagKey      string // the struct tag the description was read from
	fields      []*field
	hasInit     bool
	hasValidate bool
	selfUnpacks bool // the type has its own Unpack method: the library hands it the settings
}

type initer interface{ InitDefaults() }
type validater interface{ Validate() error }

var (
	tIniter    = reflect.TypeOf((*initer)(nil)).Elem()
	tValidater = reflect.TypeOf((*validater)(nil)).Elem()
	tDuration  = reflect.TypeOf(time.Duration(0))
	tString    = reflect.TypeOf("")
	tBool      = reflect.TypeOf(true)
	tInt       = reflect.TypeOf(int(0))
	tInt8      = reflect.TypeOf(int8(0))
	tInt16     = reflect.TypeOf(int16(0))
	tInt32     = reflect.TypeOf(int32(0))
	tInt64     = reflect.TypeOf(int64(0))
	tUint      = reflect.TypeOf(uint(0))
	tUint8     = reflect.TypeOf(uint8(0))
	tUint16    = reflect.TypeOf(uint16(0))
	tUint32    = reflect.TypeOf(uint32(0))
	tUint64    = reflect.TypeOf(uint64(0))
	tFloat32   = reflect.TypeOf(float32(0))
	tFloat64   = reflect.TypeOf(float64(0))
	tConfigPtr = reflect.TypeOf((*ucfg.Config)(nil))
	tConfigVal = reflect.TypeOf(ucfg.Config{})
	tRegexp    = reflect.TypeOf(regexp.Regexp{})
)

func implementsPtr(t, iface reflect.Type) bool {
	return t.Implements(iface) || reflect.PtrTo(t).Implements(iface)
}

func isPrimType(t reflect.Type) bool {
	if t == tRegexp {
		return true // a struct by kind, unpacked from a string like a primitive
	}
	switch t.Kind() {
	case reflect.Bool, reflect.String,
		reflect.Int, reflect.Int8, reflect.Int16, reflect.Int32, reflect.Int64,
		reflect.Uint, reflect.Uint8, reflect.Uint16, reflect.Uint32, reflect.Uint64,
		reflect.Float32, reflect.Float64:
		return true
	}
	return false
}

// family names the conversion family of a primitive type.
func family(t reflect.Type) string {
	if t == tDuration {
		return "duration"
	}
	if t == tRegexp {
		return "regexp"
	}
	switch t.Kind() {
	case reflect.Bool:
		return "bool"
	case reflect.String:
		return "string"
	case reflect.Int, reflect.Int8, reflect.Int16, reflect.Int32, reflect.Int64:
		return "int"
	case reflect.Uint, reflect.Uint8, reflect.Uint16, reflect.Uint32, reflect.Uint64:
		return "uint"
	case reflect.Float32, reflect.Float64:
		return "float"
	}
	return "other"
}

func primName(t reflect.Type) string {
	switch t {
	case tDuration:
		return "duration"
	case tLibPort:
		return "libport"
	case tRegexp:
		return "regexp"
	}
	if t.Name() != "" && t.PkgPath() != "" {
		return "named-" + t.Name() // the hand-written named primitives
	}
	return t.Kind().String()
}

// shape is the kind/shape component of the signatures.
func (f *field) shape() string {
	switch f.kind {
	case kPrim:
		return primName(f.prim)
	case kPtrPrim:
		return "ptr-" + family(f.prim)
	case kStruct:
		return "struct"
	case kPtrStruct:
		return "ptr-struct"
	case kSlicePrim:
		if f.typ.Name() != "" {
			return "named-" + f.typ.Name() // a named list type (with methods)
		}
		return "slice-" + family(f.prim)
	case kSliceStruct:
		if f.elemPtr {
			return "slice-ptr-struct"
		}
		return "slice-struct"
	case kArrayPrim:
		if f.typ.Name() != "" {
			return "named-" + f.typ.Name() // a named array type (with methods)
		}
		return "array-" + family(f.prim)
	case kArrayComp:
		return "array-of-" + f.elem.shape()
	case kMapPrim:
		if f.typ.Name() != "" {
			return "named-" + f.typ.Name() // a named map type (with methods)
		}
		return "map-" + family(f.prim)
	case kMapPtrStruct:
		return "map-ptr-struct"
	case kMapStruct:
		return "map-struct"
	case kConfig:
		return "config"
	case kUntouched:
		return f.flavour
	}
	return "opaque"
}

func parseHint(tag, validate string) hint {
	var h hint
	if i := strings.IndexAny(validate, "=, "); i >= 0 {
		h.validate = validate[:i]
	} else {
		h.validate = validate
	}
	if tag == "" {
		return h
	}
	p := strings.Split(tag, ":")
	h.has = true
	if p[0] == "str" {
		h.str = true
		h.badStr = p[1]
		h.viaMeth = p[2] == "method"
		return h
	}
	h.lo, _ = strconv.ParseInt(p[0], 10, 64)
	h.hi, _ = strconv.ParseInt(p[1], 10, 64)
	h.bad, _ = strconv.ParseInt(p[2], 10, 64)
	h.viaMeth = p[3] == "method"
	return h
}

// altTag is the second struct tag name (StructTag option).
const altTag = "alt"

// elemField describes one element of a composite array.
func elemField(et reflect.Type, tagKey string) *field {
	e := &field{goName: "[]", typ: et}
	switch {
	case et.Kind() == reflect.Struct:
		e.kind, e.sub = kStruct, describe(et, tagKey)
	case et.Kind() == reflect.Map && isPrimType(et.Elem()):
		e.kind, e.prim = kMapPrim, et.Elem()
	case et.Kind() == reflect.Slice && isPrimType(et.Elem()):
		e.kind, e.prim = kSlicePrim, et.Elem()
	default:
		return nil
	}
	return e
}

// describe derives the description of a struct type as it reads under the
// struct tag tagKey ("config" is the default of the library).
func describe(t reflect.Type, tagKey string) *stype {
	st := &stype{typ: t, tagKey: tagKey, hasInit: implementsPtr(t, tIniter), hasValidate: implementsPtr(t, tValidater)}
	_, st.selfUnpacks = reflect.PtrTo(t).MethodByName("Unpack")
	for i := 0; i < t.NumField(); i++ {
		sf := t.Field(i)
		f := &field{idx: i, goName: sf.Name, typ: sf.Type, owner: st}
		st.fields = append(st.fields, f)
		if sf.PkgPath != "" {
			f.unexported, f.kind, f.name = true, kOpaque, strings.ToLower(sf.Name)
			continue
		}
		parts := strings.Split(sf.Tag.Get(tagKey), ",")
		f.name = parts[0]
		if f.name == "" {
			f.name = strings.ToLower(sf.Name)
		}
		for _, o := range parts[1:] {
			switch o {
			case "ignore":
				f.ignore = true
			case "inline", "squash":
				f.inline = true
			case "merge", "replace", "append", "prepend":
				f.tagPol = o
			}
		}
		f.hint = parseHint(sf.Tag.Get("c13"), sf.Tag.Get("validate"))
		ft := sf.Type
		switch {
		case ft == tConfigVal:
			f.kind, f.flavour = kUntouched, "config-by-value"
		case ft.Kind() == reflect.Interface:
			f.kind, f.flavour = kUntouched, "interface-with-initdefaults"
		case ft.Kind() == reflect.Ptr && ft.Elem() == t:
			f.kind, f.flavour = kUntouched, "recursive-pointer"
		case isPrimType(ft):
			f.kind, f.prim, f.hasInit = kPrim, ft, implementsPtr(ft, tIniter)
		case ft.Kind() == reflect.Ptr && isPrimType(ft.Elem()):
			f.kind, f.prim = kPtrPrim, ft.Elem()
		case ft == tConfigPtr:
			f.kind = kConfig
		case ft.Kind() == reflect.Struct:
			f.kind, f.sub = kStruct, describe(ft, tagKey)
		case ft.Kind() == reflect.Ptr && ft.Elem().Kind() == reflect.Struct:
			f.kind, f.sub = kPtrStruct, describe(ft.Elem(), tagKey)
		case ft.Kind() == reflect.Slice && isPrimType(ft.Elem()):
			f.kind, f.prim = kSlicePrim, ft.Elem()
		case ft.Kind() == reflect.Slice && ft.Elem().Kind() == reflect.Struct:
			f.kind, f.sub = kSliceStruct, describe(ft.Elem(), tagKey)
		case ft.Kind() == reflect.Slice && ft.Elem().Kind() == reflect.Ptr && ft.Elem().Elem().Kind() == reflect.Struct:
			f.kind, f.sub, f.elemPtr = kSliceStruct, describe(ft.Elem().Elem(), tagKey), true
		case ft.Kind() == reflect.Array && isPrimType(ft.Elem()):
			f.kind, f.prim = kArrayPrim, ft.Elem()
		case ft.Kind() == reflect.Array && elemField(ft.Elem(), tagKey) != nil:
			f.kind, f.elem = kArrayComp, elemField(ft.Elem(), tagKey)
		case ft.Kind() == reflect.Map && isPrimType(ft.Elem()):
			f.kind, f.prim = kMapPrim, ft.Elem()
		case ft.Kind() == reflect.Map && ft.Elem().Kind() == reflect.Struct:
			f.kind, f.sub = kMapStruct, describe(ft.Elem(), tagKey)
		case ft.Kind() == reflect.Map && ft.Elem().Kind() == reflect.Ptr && ft.Elem().Elem().Kind() == reflect.Struct:
			f.kind, f.sub = kMapPtrStruct, describe(ft.Elem().Elem(), tagKey)
		default:
			panic(fmt.Sprintf("c13: unsupported field type %v", ft))
		}
	}
	return st
}

// elemStruct: the struct type of the elements / entries / the value of a field
// that holds structs (nil for the other kinds and for inline fields).
func (f *field) elemStruct() *stype {
	switch f.kind {
	case kSliceStruct, kMapStruct, kMapPtrStruct:
		return f.sub
	case kStruct, kPtrStruct:
		if !f.inline {
			return f.sub
		}
	case kArrayComp:
		if f.elem.kind == kStruct {
			return f.elem.sub
		}
	}
	return nil
}

// inlinesPointer: one of the fields of st is a pointer to a struct inlined into it.
func (st *stype) inlinesPointer() bool {
	for _, f := range st.fields {
		if f.kind == kPtrStruct && f.inline && !f.ignore && !f.unexported {
			return true
		}
	}
	return false
}

// countLeaves counts the configurable leaf fields reachable by value, pointer
// and inline nesting.
func (st *stype) countLeaves() int {
	n := 0
	for _, f := range st.fields {
		switch {
		case f.unexported || f.ignore || f.kind == kUntouched:
		case f.kind == kStruct || f.kind == kPtrStruct:
			n += f.sub.countLeaves()
		default:
			n++
		}
	}
	return n
}

// ---------------------------------------------------------------------------
// type generator

var primTypes = []reflect.Type{tBool, tInt, tInt8, tInt16, tInt32, tInt64, tUint, tUint8, tUint16, tUint32, tUint64, tFloat32, tFloat64, tString, tString, tDuration, tInt, tString}
var elemTypes = []reflect.Type{tInt, tInt, tString, tString, tInt64, tFloat64, tBool, tUint, tDuration, tInt16}

type vrule struct {
	validate string
	c13      string
}

// validator tags by conversion family together with the generator hint
// (range of passing values, one failing value).
var vrules = map[string][]vrule{
	"int":      {{"min=10", "10:100:3:tag"}, {"max=100", "-50:100:120:tag"}, {"positive", "0:100:-4:tag"}, {"nonzero", "1:100:0:tag"}, {"min=-5, max=50", "-5:50:77:tag"}},
	"uint":     {{"min=5", "5:100:2:tag"}, {"max=100", "0:100:200:tag"}, {"nonzero", "1:100:0:tag"}},
	"float":    {{"min=0.5", "1:100:0:tag"}, {"max=100", "-50:100:101:tag"}, {"positive", "0:100:-3:tag"}},
	"duration": {{"min=1s", "1:3600:0:tag"}, {"max=1h", "0:3600:7200:tag"}, {"positive", "0:3600:-5:tag"}, {"nonzero", "1:3600:0:tag"}},
	"string":   {{"nonzero", "str::tag"}},
}

type tgen struct {
	r *rand.Rand
	n int // running number: Go field names and configuration names are unique per generated type
	// twoTags: the fields carry a second tag set under altTag (other names,
	// other ignore flags, other merge policies) for the StructTag option
	twoTags bool
	// leadInline: the next struct type generated starts with an inline struct
	leadInline bool
}

// tag builds the struct tag of field num: the config tag set from opts, and --
// for types with two tag sets, 4 fields in 5 -- the alt tag set from altOpts.
// tagName spells the setting name of field num: half of them lower case, the
// others with upper-case letters (leading, inside, all), separators, non-ASCII
// letters with and without case. The number keeps them unique whatever is
// done to their case.
func (g *tgen) tagName(base string, num int) string {
	n := strconv.Itoa(num)
	up := strings.ToUpper(base)
	switch g.r.Intn(16) {
	case 0, 1:
		return up + n
	case 2, 3:
		return "max" + up + n
	case 4:
		return up + "LS" + n + "x"
	case 5:
		return base + "_" + n + "-" + up
	case 6:
		return "\u00f1" + base + n // lower-case non-ASCII
	case 7:
		return "\u00dc" + base + n // upper-case non-ASCII
	case 8:
		return "\u65e5\u672c" + base + n // no case at all
	}
	return base + n
}

// goName spells the Go name of field num (the setting name of a field without
// a name in its tag is the lower-cased Go name).
func (g *tgen) goName(num int) string {
	n := strconv.Itoa(num)
	switch g.r.Intn(10) {
	case 0:
		return "MaxF" + n
	case 1:
		return "F\u00dc" + n
	case 2:
		return "F_x" + n
	case 3, 4:
		// exported identifiers that begin with a capital letter outside ASCII
		// (Latin-1, Latin Extended, Greek, Cyrillic), continued in either case
		first := []string{"\u00c4", "\u00dc", "\u00d6", "\u00d1", "\u00c9", "\u0141", "\u03a9", "\u0394", "\u0416", "\u042f"}[g.r.Intn(10)]
		return first + []string{"f", "F", "\u00e4f", "x_"}[g.r.Intn(4)] + n
	}
	return "F" + n
}

// goNameStyle classifies the first letter of a Go field name.
func goNameStyle(name string) string {
	c, _ := utf8.DecodeRuneInString(name)
	switch {
	case c < utf8.RuneSelf:
		return "ascii"
	case unicode.Is(unicode.Greek, c):
		return "greek-capital"
	case unicode.Is(unicode.Cyrillic, c):
		return "cyrillic-capital"
	case c < 0x100:
		return "latin1-capital"
	}
	return "latin-extended-capital"
}

// nameStyle classifies a setting name for the monitors.
func nameStyle(name string) string {
	st := "lower-ascii"
	for _, c := range name {
		switch {
		case c > 127 && unicode.IsUpper(c):
			return "non-ascii-upper"
		case c > 127:
			st = "non-ascii"
		case unicode.IsUpper(c) && st == "lower-ascii":
			st = "ascii-upper"
		}
	}
	return st
}

func (g *tgen) tag(num int, opts, altOpts []string, extra string) reflect.StructTag {
	name := ""
	if g.r.Intn(10) < 7 {
		name = g.tagName("k", num)
	}
	t := ""
	if name != "" || len(opts) > 0 || g.r.Intn(2) > 0 {
		t = `config:"` + strings.Join(append([]string{name}, opts...), ",") + `"`
	}
	if g.twoTags && g.r.Intn(5) > 0 {
		name = ""
		if g.r.Intn(10) < 7 {
			name = g.tagName("q", num)
		}
		t += ` ` + altTag + `:"` + strings.Join(append([]string{name}, altOpts...), ",") + `"`
	}
	return reflect.StructTag(strings.TrimSpace(t + " " + extra))
}

var listPols = []string{"append", "prepend", "replace", "merge"}

// structPols: tag options on struct-typed fields (inherited by the sub-fields).
// merge counts double: it only shows where an outer policy is in force.
var structPols = []string{"append", "prepend", "replace", "merge", "merge"}

// primStruct: a struct of 1-3 primitive fields (element of lists and maps).
func (g *tgen) primStruct() reflect.Type {
	var fs []reflect.StructField
	for i, n := 0, 1+g.r.Intn(3); i < n; i++ {
		g.n++
		fs = append(fs, reflect.StructField{Name: g.goName(g.n), Type: primTypes[g.r.Intn(len(primTypes))], Tag: g.tag(g.n, nil, nil, "")})
	}
	return reflect.StructOf(fs)
}

// structType generates a struct type. depth: how many more levels of nested
// structs are allowed; validators: validate tags allowed (only where the
// value always exists before Unpack: top level, by-value and inline nesting,
// because Unpack also validates what it does not touch).
func (g *tgen) structType(depth, nf int, validators bool) reflect.Type {
	return reflect.StructOf(g.structFields(depth, nf, validators))
}

func (g *tgen) structFields(depth, nf int, validators bool) []reflect.StructField {
	r := g.r
	var fs []reflect.StructField
	for i := 0; i < nf; i++ {
		g.n++
		num := g.n
		sf := reflect.StructField{Name: g.goName(num)}
		extra := ""
		inline := false
		var pool []string      // the policy tag options this kind of field may carry ...
		polNum, polDen := 0, 1 // ... and how often
		x := r.Intn(116)
		if depth == 0 && (x >= 44 && x < 62 || x >= 111) {
			x = r.Intn(44)
		}
		if i == 0 && g.leadInline {
			// the struct behind an inlined pointer starts with a struct inlined
			// into it in turn, the ordinary fields come after it
			g.leadInline = false
			x = -1
		}
		nested := func(v bool) reflect.Type {
			if r.Intn(3) == 0 {
				return libStructs[r.Intn(len(libStructs))]
			}
			return g.structType(depth-1, 1+r.Intn(4), v)
		}
		switch {
		case x < 0: // leading inline struct of primitives (by value or by pointer)
			sf.Type = g.structType(0, 1+r.Intn(2), false)
			if r.Intn(4) == 0 {
				sf.Type = reflect.PtrTo(sf.Type)
			}
			inline = true
		case x < 36:
			sf.Type = primTypes[r.Intn(len(primTypes))]
			if rules := vrules[family(sf.Type)]; validators && len(rules) > 0 && r.Intn(4) == 0 {
				vr := rules[r.Intn(len(rules))]
				extra = `validate:"` + vr.validate + `" c13:"` + vr.c13 + `"`
			}
		case x < 38: // named primitives with InitDefaults (constant, conditional, no-op)
			sf.Type = namedPrims[r.Intn(len(namedPrims))]
		case x < 44:
			sf.Type = reflect.PtrTo(primTypes[r.Intn(len(primTypes))])
		case x < 51: // struct by value
			sf.Type = nested(validators)
			pool, polNum, polDen = structPols, 2, 5
		case x < 57: // pointer to struct
			sf.Type = reflect.PtrTo(nested(false))
			pool, polNum, polDen = structPols, 2, 5
		case x < 62: // inline struct by value (generated only: names stay unique)
			sf.Type = g.structType(depth-1, 1+r.Intn(3), validators)
			inline = true
			pool, polNum, polDen = structPols, 2, 5
		case x < 76:
			sf.Type = reflect.SliceOf(elemTypes[r.Intn(len(elemTypes))])
			if r.Intn(7) == 0 {
				sf.Type = tLibList // a named list type with an InitDefaults method
			}
			pool, polNum, polDen = listPols, 1, 2
		case x < 81:
			sf.Type = reflect.SliceOf(g.primStruct())
			if r.Intn(3) == 0 {
				sf.Type = reflect.SliceOf(reflect.PtrTo(g.primStruct()))
			}
			pool, polNum, polDen = listPols, 1, 2
		case x < 87:
			sf.Type = reflect.ArrayOf(1+r.Intn(4), elemTypes[r.Intn(len(elemTypes))])
			if r.Intn(7) == 0 {
				sf.Type = tLibArr // a named array type with an InitDefaults method
			} else if r.Intn(5) < 2 { // composite elements
				var et reflect.Type
				switch r.Intn(5) {
				case 0:
					et = tLibPlain // unexported, ignored and embedded fields inside the elements
				case 1:
					et = reflect.MapOf(tString, elemTypes[r.Intn(len(elemTypes))])
				case 2:
					et = reflect.SliceOf(elemTypes[r.Intn(len(elemTypes))])
					pool, polNum, polDen = listPols, 1, 3
				default:
					et = g.primStruct()
				}
				sf.Type = reflect.ArrayOf(1+r.Intn(3), et)
			}
		case x < 94:
			sf.Type = reflect.MapOf(tString, elemTypes[r.Intn(len(elemTypes))])
			if r.Intn(4) == 0 {
				// named map types with an InitDefaults method (doing nothing / setting one entry)
				sf.Type = []reflect.Type{tLibMap, tLibDefMap}[r.Intn(2)]
			}
			pool, polNum, polDen = listPols, 1, 3
		case x < 97:
			sf.Type = reflect.MapOf(tString, reflect.PtrTo(g.primStruct()))
			pool, polNum, polDen = listPols, 1, 3
		case x < 100:
			sf.Type = reflect.MapOf(tString, g.primStruct())
			pool, polNum, polDen = listPols, 1, 3
		case x < 105: // *ucfg.Config capturing a sub-configuration
			sf.Type = tConfigPtr
			pool, polNum, polDen = listPols, 1, 2
		case x < 107: // a regular expression, by value or by pointer
			sf.Type = tRegexp
			if r.Intn(2) == 0 {
				sf.Type = reflect.PtrTo(tRegexp)
			}
		case x < 111: // fields no configuration mentions
			sf.Type = []reflect.Type{tLibIniter, tConfigVal, tLibIniter, tConfigVal}[x-107]
		default: // inline struct by pointer
			nf := 1 + r.Intn(3)
			if r.Intn(2) == 0 {
				g.leadInline, nf = true, nf+1
			}
			sf.Type = reflect.PtrTo(g.structType(depth-1, nf, false))
			inline = true
			pool, polNum, polDen = structPols, 2, 5
		}
		// one set of tag options per tag name: the same inline-ness, policy and
		// ignore flag drawn independently
		tagOpts := func() []string {
			var opts []string
			if inline {
				opts = append(opts, []string{"inline", "inline", "squash"}[r.Intn(3)])
			}
			if pool != nil && r.Intn(polDen) < polNum {
				opts = append(opts, pool[r.Intn(len(pool))])
			}
			if len(opts) == 0 && extra == "" && r.Intn(12) == 0 {
				opts = append(opts, "ignore") // never together with inline, a policy or a validator
			}
			return opts
		}
		opts := tagOpts()
		var altOpts []string
		if g.twoTags {
			altOpts = tagOpts()
		}
		sf.Tag = g.tag(num, opts, altOpts, extra)
		fs = append(fs, sf)
	}
	return fs
}

// carrierFields: 2-4 fields that hold values of ONE struct type (the carrier:
// 1-2 primitive fields and, at a random place among them, a pointer to a
// struct of primitives inlined into it) -- as a list (of values / of pointers),
// a fixed-size array, a map (of values / of pointers), by value, by pointer --
// and at most one field inlining a pointer to the same struct of primitives
// into the enclosing struct itself. One Unpack call then meets several nil
// inline pointers of one struct type: the elements of one list, the entries of
// one map, sibling fields. The inlined struct holds primitives only: it never
// reaches its own type again.
func (g *tgen) carrierFields() []reflect.StructField {
	r := g.r
	common := g.primStruct()
	inlineTag := func(num int) reflect.StructTag {
		opts := func() []string {
			o := []string{[]string{"inline", "inline", "squash"}[r.Intn(3)]}
			if r.Intn(5) == 0 {
				o = append(o, structPols[r.Intn(len(structPols))])
			}
			return o
		}
		o := opts()
		var ao []string
		if g.twoTags {
			ao = opts()
		}
		return g.tag(num, o, ao, "")
	}
	var ifs []reflect.StructField
	for i, n := 0, 1+r.Intn(2); i < n; i++ {
		g.n++
		ifs = append(ifs, reflect.StructField{Name: g.goName(g.n), Type: primTypes[r.Intn(len(primTypes))], Tag: g.tag(g.n, nil, nil, "")})
	}
	g.n++
	inl := reflect.StructField{Name: g.goName(g.n), Type: reflect.PtrTo(common), Tag: inlineTag(g.n)}
	at := r.Intn(len(ifs) + 1)
	ifs = append(ifs[:at], append([]reflect.StructField{inl}, ifs[at:]...)...)
	item := reflect.StructOf(ifs)

	var out []reflect.StructField
	topInline := false
	for i, n := 0, 2+r.Intn(3); i < n; i++ {
		g.n++
		num := g.n
		sf := reflect.StructField{Name: g.goName(num)}
		var pool []string
		polNum, polDen := 0, 1
		x := r.Intn(12)
		if x == 11 && topInline {
			x = r.Intn(4)
		}
		switch x {
		case 0, 1, 2:
			sf.Type = reflect.SliceOf(item)
			pool, polNum, polDen = listPols, 1, 2
		case 3:
			sf.Type = reflect.SliceOf(reflect.PtrTo(item))
			pool, polNum, polDen = listPols, 1, 2
		case 4, 5:
			sf.Type = reflect.ArrayOf(2+r.Intn(2), item)
		case 6:
			sf.Type = reflect.MapOf(tString, item)
			pool, polNum, polDen = listPols, 1, 3
		case 7:
			sf.Type = reflect.MapOf(tString, reflect.PtrTo(item))
			pool, polNum, polDen = listPols, 1, 3
		case 8, 9:
			sf.Type = item
			pool, polNum, polDen = structPols, 1, 5
		case 10:
			sf.Type = reflect.PtrTo(item)
			pool, polNum, polDen = structPols, 1, 5
		default:
			// the enclosing struct inlines a pointer to the same struct of primitives
			topInline = true
			sf.Type = reflect.PtrTo(common)
			sf.Tag = inlineTag(num)
			out = append(out, sf)
			continue
		}
		opts := func() []string {
			if pool != nil && r.Intn(polDen) < polNum {
				return []string{pool[r.Intn(len(pool))]}
			}
			return nil
		}
		o := opts()
		var ao []string
		if g.twoTags {
			ao = opts()
		}
		sf.Tag = g.tag(num, o, ao, "")
		out = append(out, sf)
	}
	return out
}

// genTop draws the type of a case: 1 in 8 the hand-written LibTop, 1 in 8 one
// of the hand-written self-unpacking types, 1 in 64 the self-referential
// LibRing, else a generated type (half of them with two tag sets).
func genTop(r *rand.Rand) reflect.Type {
	switch r.Intn(8) {
	case 0:
		return tLibTop
	case 1:
		return selfStructs[r.Intn(len(selfStructs))]
	case 2:
		if r.Intn(8) == 0 {
			return tLibRing
		}
	}
	g := &tgen{r: r, twoTags: r.Intn(2) == 0}
	if r.Intn(3) > 0 {
		return g.structType(2, 3+r.Intn(6), true)
	}
	// 1 in 3: fewer ordinary fields, and 2-4 fields holding values of one
	// carrier type (see carrierFields) at random places among them
	fs := g.structFields(2, 2+r.Intn(4), true)
	for _, cf := range g.carrierFields() {
		at := r.Intn(len(fs) + 1)
		fs = append(fs[:at], append([]reflect.StructField{cf}, fs[at:]...)...)
	}
	return reflect.StructOf(fs)
}
