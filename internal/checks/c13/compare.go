package c13

import (
	"fmt"
	"reflect"
	"sort"
	"strconv"
	"strings"

	"verif/internal/harness"
	"verif/internal/model"
)

// comparer walks the type description and compares the value Unpack produced
// with the modelled expectation, classifying each deviation.
type comparer struct {
	res    *harness.R
	twin   map[uintptr]uintptr     // pointer / map of the snapshot -> its twin in the target
	cfgs   map[uintptr]*model.Node // trees of the pre-filled *Config fields (by pointer in the snapshot)
	cfgExp map[*field]*model.Node  // modelled contents of the mentioned *Config fields
	ctx    func() string
	// top / gotTop: the type and the whole value this Unpack call produced
	top    *stype
	gotTop reflect.Value
	fresh  map[reflect.Type]int // see freshInline; computed on first use
}

// freshInline counts, per pointee struct type, the inlined pointers of the
// value Unpack produced that it allocated in this call (they are not the twin
// of a pointer of the pre-filled value).
func (k *comparer) freshInline(st *stype, v reflect.Value, old map[uintptr]bool) {
	for _, f := range st.fields {
		if f.unexported || f.ignore {
			continue
		}
		fv := v.Field(f.idx)
		each := func(est *stype, e reflect.Value) {
			if e = deref(e); e.IsValid() {
				k.freshInline(est, e, old)
			}
		}
		switch f.kind {
		case kStruct:
			k.freshInline(f.sub, fv, old)
		case kPtrStruct:
			if fv.IsNil() {
				continue
			}
			if f.inline && !old[fv.Pointer()] {
				k.fresh[f.sub.typ]++
			}
			k.freshInline(f.sub, fv.Elem(), old)
		case kSliceStruct:
			for i := 0; i < fv.Len(); i++ {
				each(f.sub, fv.Index(i))
			}
		case kArrayComp:
			if f.elem.kind == kStruct {
				for i := 0; i < fv.Len(); i++ {
					each(f.elem.sub, fv.Index(i))
				}
			}
		case kMapStruct, kMapPtrStruct:
			if !fv.IsNil() {
				for _, key := range fv.MapKeys() {
					each(f.sub, fv.MapIndex(key))
				}
			}
		}
	}
}

// leftNilSuffix: the part of the signature that tells an inline pointer that
// is never allocated from one that stayed nil while the same Unpack call did
// allocate another nil inline pointer of the same struct type.
func (k *comparer) leftNilSuffix(t reflect.Type) string {
	if k.top == nil || !k.gotTop.IsValid() {
		return ""
	}
	if k.fresh == nil {
		k.fresh = map[reflect.Type]int{}
		old := map[uintptr]bool{}
		for _, p := range k.twin {
			old[p] = true
		}
		k.freshInline(k.top, k.gotTop, old)
	}
	if k.fresh[t] > 0 {
		return ":another-nil-inline-pointer-of-its-type-was-allocated-in-the-same-call"
	}
	return ""
}

// inlineLeftNil: the first inline pointer field of st that was nil (pre), for
// which the settings c have something (so the model allocated it) and which
// the value Unpack produced still holds as nil.
func inlineLeftNil(st *stype, pre, exp, got reflect.Value, c *cval) *field {
	if c == nil || c.fields == nil || !exp.IsValid() || !got.IsValid() {
		return nil
	}
	for _, f := range st.fields {
		if f.kind != kPtrStruct || !f.inline || f.unexported || f.ignore {
			continue
		}
		if cv := c.fields[f]; cv.absent() || cv.real == 0 {
			continue
		}
		if p := sub(pre, f.idx); p.IsValid() && !p.IsNil() {
			continue
		}
		if !exp.Field(f.idx).IsNil() && got.Field(f.idx).IsNil() {
			return f
		}
	}
	return nil
}

func (k *comparer) violate(sig, path string, exp, got reflect.Value, note string) {
	k.res.Violate(sig, "field %s: got %s want %s%s; %s", path, render(got), render(exp), note, k.ctx())
}

// sameRef: does the reference field still hold what it held before Unpack?
func (k *comparer) sameRef(pre, got reflect.Value) bool {
	if !pre.IsValid() {
		return true
	}
	if pre.IsNil() || got.IsNil() {
		return pre.IsNil() == got.IsNil()
	}
	return k.twin[pre.Pointer()] == got.Pointer()
}

func sub(v reflect.Value, i int) reflect.Value {
	if v.IsValid() {
		return v.Field(i)
	}
	return v
}

func (k *comparer) cmpStruct(st *stype, pre, exp, got reflect.Value, c *cval, pc polCtx, where, path string) {
	at := ""
	if where == "array-elem" {
		at = "@" + where
	}
	for _, f := range st.fields {
		p := path + "." + f.goName
		fpre, fexp, fgot := sub(pre, f.idx), exp.Field(f.idx), got.Field(f.idx)
		switch {
		case f.unexported:
			if !equal(fexp, fgot, true) {
				k.violate("unexported-field-changed"+at, p, fexp, fgot, "")
			}
			continue
		case f.ignore:
			if !equal(fexp, fgot, true) {
				k.violate("ignored-field-changed"+at, p, fexp, fgot, "")
			} else if isRef(fgot) && !k.sameRef(fpre, fgot) {
				k.violate("ignored-field-changed"+at, p, fexp, fgot, " (equal contents, another pointer/map)")
			}
			continue
		}
		var cv *cval
		if c != nil && c.fields != nil {
			cv = c.fields[f]
		}
		if goNameStyle(f.goName) == "ascii" {
			k.cmpField(f, fpre, fexp, fgot, cv, f.policy(pc), where, p)
			continue
		}
		// a field whose Go name begins with a capital letter outside ASCII is
		// exported like any other: when it deviates and holds exactly what it
		// held before although the configuration has a setting for it, the
		// field was passed over as a whole -- a failure class of its own
		out := k.res
		tmp := harness.NewR(out.Index)
		k.res = tmp
		k.cmpField(f, fpre, fexp, fgot, cv, f.policy(pc), where, p)
		k.res = out
		out.Evals += tmp.Evals
		if len(tmp.Violations) == 0 {
			continue
		}
		mentioned := !cv.absent() && (cv.form != "fields" || cv.real > 0)
		emptySetting := mentioned && (cv.form == "list" && len(cv.list) == 0 || cv.form == "keys" && len(cv.keys) == 0)
		// (an empty list / object as the setting: its own failure classes)
		if !emptySetting && equal(h0(fpre, f.typ), fgot, true) {
			tagged := "without-name-in-tag"
			if f.name != strings.ToLower(f.goName) {
				tagged = "with-name-in-tag"
			}
			if mentioned {
				out.Violate("setting-not-unpacked:go-field-name-starts-with-non-ascii-capital:"+tagged,
					"field %s (%s, %s first letter, %s) has the setting %s and still holds %s, want %s; %s", p, f.shape(), goNameStyle(f.goName), where, renderGo(cv.toGo()), render(fgot), render(fexp), k.ctx())
			} else {
				// no setting, and the defaults its type or its fields declare were not applied either
				out.Violate("defaults-not-applied:go-field-name-starts-with-non-ascii-capital:"+tagged,
					"field %s (%s, %s first letter, %s) has no setting and still holds %s, want %s; %s", p, f.shape(), goNameStyle(f.goName), where, render(fgot), render(fexp), k.ctx())
			}
			continue
		}
		for _, v := range tmp.Violations {
			out.Violate(v.Sig, "%s", v.Detail)
		}
	}
}

func isRef(v reflect.Value) bool { return v.Kind() == reflect.Ptr || v.Kind() == reflect.Map }

func (k *comparer) cmpField(f *field, pre, exp, got reflect.Value, cv *cval, pc polCtx, where, path string) {
	absent := cv.absent()
	unm := "unmentioned-field-changed:" + f.shape() + "@" + where
	men := "mentioned-field-wrong:" + f.shape()
	switch f.kind {
	case kPrim:
		if !equal(exp, got, true) {
			if absent {
				k.violate(unm, path, exp, got, "")
			} else {
				k.violate(men, path, exp, got, fmt.Sprintf(" (setting %s)", renderGo(cv.toGo())))
			}
		}
	case kPtrPrim:
		switch {
		case absent && !equal(exp, got, true):
			k.violate(unm, path, exp, got, "")
		case absent && !k.sameRef(pre, got):
			k.violate(unm+":identity", path, exp, got, " (equal pointee, another pointer)")
		case !absent && !equal(exp, got, true):
			k.violate(men, path, exp, got, fmt.Sprintf(" (setting %s)", renderGo(cv.toGo())))
		}
	case kStruct:
		if absent {
			cv = nil
		}
		w := "nested"
		if f.inline {
			w = "inline"
		}
		if where == "array-elem" {
			w = where
		}
		k.cmpStruct(f.sub, pre, exp, got, cv, pc.below(), w, path)
	case kUntouched:
		// no configuration mentions it: same contents, and what it refers to is
		// still the same object (a pointer into a ring is compared by identity
		// only: the ring may contain the target itself)
		switch {
		case f.flavour != "recursive-pointer" && !equal(exp, got, true):
			k.violate(unm, path, exp, got, "")
		case f.flavour == "recursive-pointer" && !k.sameRef(pre, got):
			k.violate(unm+":identity", path, exp, got, " (another pointer)")
		case f.flavour == "interface-with-initdefaults" && pre.IsValid() && !pre.IsNil() && !got.IsNil() && !k.sameRef(pre.Elem(), got.Elem()):
			k.violate(unm+":identity", path, exp, got, " (equal contents, another pointer inside the interface)")
		}
	case kPtrStruct:
		if f.inline && !absent && cv.real == 0 {
			absent = true // an inlined struct is mentioned when one of its fields is
		}
		switch {
		case absent && f.inline && !exp.IsNil() && !got.IsNil() && k.sameRef(pre, got):
			// an inlined pointee nothing is mentioned of: field by field
			k.cmpStruct(f.sub, deref(pre), exp.Elem(), got.Elem(), nil, pc.below(), "pointee", path)
		case absent && !equal(exp, got, true):
			k.violate(unm, path, exp, got, "")
		case absent && !k.sameRef(pre, got):
			k.violate(unm+":identity", path, exp, got, " (equal pointee, another pointer)")
		case absent:
		case got.IsNil() && f.inline:
			// the inlined pointer was not allocated although the configuration
			// has settings for fields of its struct
			sig := men + ":inline-pointer-left-nil"
			if onlyAfterNestedInline(f.sub, cv) {
				sig += ":settings-only-after-a-nested-inline-struct"
			}
			if where == "array-elem" {
				sig += "@" + where
			}
			sig += k.leftNilSuffix(f.sub.typ)
			k.violate(sig, path, exp, got, fmt.Sprintf(" (settings %s)", renderGo(cv.toGo())))
		case got.IsNil():
			k.violate(men, path, exp, got, "")
		default:
			k.cmpStruct(f.sub, deref(pre), exp.Elem(), got.Elem(), cv, pc.below(), "pointee", path)
		}
	case kSlicePrim, kSliceStruct:
		switch {
		case absent && !equal(exp, got, true):
			k.violate(unm, path, exp, got, "")
		case absent:
		case !equal(exp, got, false):
			base := pre
			if !base.IsValid() {
				base = reflect.Zero(f.typ)
			}
			def := (&modeler{}).mergeList(f, base, cv, "default")
			site := "untagged-field"
			if f.tagPol != "" {
				site = "tagged-field"
			}
			sig := listSig(pc, site, equal(def, got, false))
			if where == "array-elem" {
				sig += "@" + where // a list that is an element of a fixed-size array
			}
			if pc.pol == "default" && pc.overridesOuter() {
				// did the merge tag option (index-wise) lose against the policy it
				// overrides? (a replaced struct list is also recognised by its
				// length alone, whatever its elements inherited)
				over := polCtx{pol: pc.over}
				if equal((&modeler{}).mergeList(f, base, cv, pc.over), got, false) ||
					f.kind == kSliceStruct && replaces(over) && got.Len() == len(cv.list) && got.Len() < exp.Len() {
					sig = "merge-tag-overridden-by-outer-policy:" + pc.src + ":" + pc.over
				}
			}
			if f.kind == kSliceStruct && replaces(pc) && def.Len() >= len(cv.list) && equal(def.Slice(0, len(cv.list)), got, false) {
				// the list was replaced, but its elements are the old elements at
				// the same positions with the settings merged into them
				src := pc.src
				if src == "global" {
					src = "global-" + site
				}
				sig = "replaced-struct-list-element-inherits-old-fields:" + src + ":" + pc.pol
			}
			if f.kind == kSliceStruct && exp.Len() == got.Len() {
				// an element whose nil inline pointer has settings and stayed nil
				pl := base.Len()
				for i := 0; i < exp.Len(); i++ {
					j, epre := i, reflect.Value{}
					switch {
					case pc.pol == "append":
						j = i - pl
					case pc.pol == "default" && i < pl:
						epre = deref(base.Index(i))
					}
					if j < 0 || j >= len(cv.list) {
						continue
					}
					if lf := inlineLeftNil(f.sub, epre, deref(exp.Index(i)), deref(got.Index(i)), cv.list[j]); lf != nil {
						sig = "mentioned-field-wrong:ptr-struct:inline-pointer-left-nil@" + f.shape() + "-elem" + k.leftNilSuffix(lf.sub.typ)
						path += "[" + strconv.Itoa(i) + "]." + lf.goName
						break
					}
				}
			}
			if len(cv.list) == 0 {
				// the empty list as the setting: replace -> the empty list, every
				// other policy -> the list as it was
				src := pc.src
				if src == "global" {
					src = "global-" + site
				}
				sig = "empty-list-setting-changes-list:" + src + ":" + pc.pol
				if replaces(pc) && base.Len() > 0 && equal(base, got, false) {
					sig = "empty-list-setting-does-not-replace-old-elements:" + src + ":" + pc.pol
				}
				if where == "array-elem" {
					sig += "@" + where
				}
			}
			k.violate(sig, path, exp, got, fmt.Sprintf(" (pre-filled %s, setting %s, policy %s from %s; index-wise merge would give %s)",
				render(base), renderGo(cv.toGo()), pc.pol, pc.src, render(def)))
		}
	case kConfig:
		switch {
		case absent && !equal(exp, got, true):
			k.violate(unm, path, exp, got, "")
		case absent && !k.sameRef(pre, got):
			k.violate(unm+":identity", path, exp, got, " (equal contents, another *Config)")
		case absent:
		case got.IsNil():
			k.violate(men, path, exp, got, "")
		default:
			want := k.cfgExp[f]
			if want == nil {
				return
			}
			k.res.Eval(2)
			seen := configCanon(got)
			if seen == want.CanonTop() {
				return
			}
			var preTree *model.Node
			if pre.IsValid() && !pre.IsNil() {
				preTree = k.cfgs[pre.Pointer()]
			}
			// which other policy explains what is there?
			as := "no-policy"
			for _, p := range []string{pc.over, "default", "append", "prepend", "replace", "arr-replace"} {
				if p != "" && p != pc.pol && mergeConfigTrees(preTree, cv.node, p).CanonTop() == seen {
					as = p
					break
				}
			}
			k.violate("config-field-merge-wrong:"+pc.src+":"+pc.pol+":result-of-"+as, path, exp, got,
				fmt.Sprintf(" (held %s, setting %s, policy %s from %s; want %s)", preTree, renderGo(cv.toGo()), pc.pol, pc.src, want.CanonTop()))
		}
	case kArrayComp:
		if absent {
			if !equal(exp, got, true) {
				k.violate(unm, path, exp, got, "")
			}
			return
		}
		for i := 0; i < exp.Len() && i < len(cv.list); i++ {
			var epre reflect.Value
			if pre.IsValid() {
				epre = pre.Index(i)
			}
			k.cmpField(f.elem, epre, exp.Index(i), got.Index(i), cv.list[i], pc, "array-elem", path+"["+strconv.Itoa(i)+"]")
		}
	case kArrayPrim:
		if !equal(exp, got, true) {
			if absent {
				k.violate(unm, path, exp, got, "")
			} else {
				k.violate(men, path, exp, got, fmt.Sprintf(" (setting %s)", renderGo(cv.toGo())))
			}
		}
	case kMapPrim, kMapPtrStruct, kMapStruct:
		withInit := implementsPtr(f.typ, tIniter)
		switch {
		case absent && withInit && (!pre.IsValid() || pre.IsNil()):
			// InitDefaults needs a map to work on: nil may have become empty
			if !equal(exp, got, false) {
				k.violate(unm, path, exp, got, "")
			}
		case absent && !equal(exp, got, true):
			sig := unm
			if withInit && pre.IsValid() && pre.Len() > 0 {
				gone := true
				for _, key := range pre.MapKeys() {
					if got.Kind() == reflect.Map && !got.IsNil() && got.MapIndex(key).IsValid() {
						gone = false
					}
				}
				if gone {
					// none of the entries it held is left: the map was exchanged
					sig += ":old-entries-gone:policy-" + pc.pol
				}
			}
			k.violate(sig, path, exp, got, "")
		case absent && !k.sameRef(pre, got):
			k.violate(unm+":identity", path, exp, got, " (equal contents, another map)")
		case absent:
		case got.IsNil() && len(cv.keys) > 0:
			k.violate(men, path, exp, got, "")
		default:
			// (the empty object meeting a nil map: nil or empty, not pinned)
			if pc.pol == "replace" && !equal(exp, got, false) {
				// is it the key-wise merge, as if there were no replace policy?
				h := reflect.New(f.typ).Elem()
				if pre.IsValid() {
					h.Set(deepCopy(pre))
				}
				(&modeler{cfgs: k.cfgs}).applyField(f, h, cv, polCtx{"default", "none", ""})
				if equal(h, got, false) {
					shape := f.shape()
					if f.kind == kMapPrim {
						shape = "map-of-primitives"
					}
					if where == "array-elem" {
						shape += "@" + where
					}
					if len(cv.keys) == 0 {
						// the empty object under replace: "replaced by the new (no)
						// entries" and "an empty dictionary replaces nothing" (the
						// merge statement) can both be read into it -- not compared
						k.res.Ev("empty_object_under_replace_left_the_old_entries(not pinned)", 1)
						return
					}
					k.violate("map-not-replaced-under-replace-policy:"+pc.src+":"+shape, path, exp, got,
						fmt.Sprintf(" (pre-filled %s, setting %s, policy replace from %s: the old entries are still there)", render(h0(pre, f.typ)), renderGo(cv.toGo()), pc.src))
					return
				}
			}
			var keys []string
			for _, key := range exp.MapKeys() {
				keys = append(keys, key.String())
			}
			sort.Strings(keys)
			for _, ks := range keys {
				key := reflect.ValueOf(ks)
				_, mentioned := cv.keys[ks]
				gv := got.MapIndex(key)
				if gv.IsValid() && equal(exp.MapIndex(key), gv, true) {
					continue
				}
				sig := "unmentioned-field-changed:" + f.shape() + "-entry@" + where
				if mentioned {
					sig = men
				}
				if len(cv.keys) == 0 {
					sig = "empty-object-setting-changes-map:" + pc.src + ":" + pc.pol + ":" + f.shape() + "@" + where
				}
				if mentioned && gv.IsValid() && f.kind != kMapPrim {
					var epre reflect.Value
					if pre.IsValid() && !pre.IsNil() && pc.pol != "replace" {
						epre = deref(pre.MapIndex(key)) // (a replaced map holds new entries alone)
					}
					if lf := inlineLeftNil(f.sub, epre, deref(exp.MapIndex(key)), deref(gv), cv.keys[ks]); lf != nil {
						sig = "mentioned-field-wrong:ptr-struct:inline-pointer-left-nil@" + f.shape() + "-entry" + k.leftNilSuffix(lf.sub.typ)
					}
				}
				if !gv.IsValid() {
					gv = reflect.Zero(f.typ.Elem())
					k.violate(sig, path+"["+strconv.Quote(ks)+"]", exp.MapIndex(key), gv, " (entry missing)")
				} else {
					k.violate(sig, path+"["+strconv.Quote(ks)+"]", exp.MapIndex(key), gv, "")
				}
			}
			for _, key := range got.MapKeys() {
				if !exp.MapIndex(key).IsValid() && len(cv.keys) == 0 {
					k.violate("empty-object-setting-changes-map:"+pc.src+":"+pc.pol+":"+f.shape()+"@"+where, path+"["+strconv.Quote(key.String())+"]", reflect.Zero(f.typ.Elem()), got.MapIndex(key), " (entry appeared)")
				} else if !exp.MapIndex(key).IsValid() {
					k.violate("unmentioned-field-changed:"+f.shape()+"-extra-entry@"+where, path+"["+strconv.Quote(key.String())+"]", reflect.Zero(f.typ.Elem()), got.MapIndex(key), " (entry appeared)")
				}
			}
		}
	}
}

// onlyAfterNestedInline: the settings for the struct st all belong to fields
// declared after a struct inlined into it, of which nothing is mentioned.
func onlyAfterNestedInline(st *stype, c *cval) bool {
	if c == nil {
		return false
	}
	passed := false
	for _, f := range st.fields {
		if f.unexported || f.ignore {
			continue
		}
		cv := c.fields[f]
		isInlineStruct := f.inline && (f.kind == kStruct || f.kind == kPtrStruct)
		switch {
		case isInlineStruct && (cv == nil || cv.real == 0):
			passed = true
		case isInlineStruct:
			return false
		case !cv.absent():
			return passed
		}
	}
	return false
}

func h0(pre reflect.Value, t reflect.Type) reflect.Value {
	if pre.IsValid() {
		return pre
	}
	return reflect.Zero(t)
}

// listSig classifies a wrong list result. gotIsDefault: the observed list is
// what the default index-wise merge gives (and that is not what was expected).
func listSig(pc polCtx, site string, gotIsDefault bool) string {
	if gotIsDefault {
		switch {
		case pc.src == "global" && pc.pol == "arr-replace":
			return "global-arr-replace-ignored:" + site
		case pc.src == "global" && site == "untagged-field":
			return "global-list-policy-ignored-for-untagged-field:" + pc.pol
		case pc.src == "inherited-tag":
			return "tag-list-policy-not-inherited-by-subfield:" + pc.pol
		}
	}
	src := pc.src
	if src == "global" {
		src = "global-" + site
	}
	return "list-merge-wrong:" + src + ":" + pc.pol
}

// untouched compares, by value, what the struct passed to a failed Unpack
// holds with the snapshot: nested struct values and arrays recursively,
// pointers and maps by identity (their contents are excluded by the
// statement), slices by length, nil-ness and -- for primitive elements --
// element values. Returns the path of the first difference or "".
func (k *comparer) untouched(snap, got reflect.Value, path string) string {
	switch snap.Kind() {
	case reflect.Interface:
		if snap.IsNil() != got.IsNil() {
			return path + " (interface nil-ness)"
		}
		if snap.IsNil() {
			return ""
		}
		if snap.Elem().Type() != got.Elem().Type() {
			return path + " (holds another type)"
		}
		return k.untouched(snap.Elem(), got.Elem(), path)
	case reflect.Struct:
		if t := snap.Type(); t == tRegexp || t == tConfigVal {
			if !equal(snap, got, true) {
				return path
			}
			return ""
		}
		for i := 0; i < snap.NumField(); i++ {
			if d := k.untouched(snap.Field(i), got.Field(i), path+"."+snap.Type().Field(i).Name); d != "" {
				return d
			}
		}
		return ""
	case reflect.Array:
		for i := 0; i < snap.Len(); i++ {
			if d := k.untouched(snap.Index(i), got.Index(i), path+"["+strconv.Itoa(i)+"]"); d != "" {
				return d
			}
		}
		return ""
	case reflect.Ptr, reflect.Map:
		if !k.sameRef(snap, got) {
			return path + " (holds another " + snap.Kind().String() + ")"
		}
		return ""
	case reflect.Slice:
		if snap.IsNil() != got.IsNil() || snap.Len() != got.Len() {
			return path + " (slice length / nil-ness)"
		}
		if isPrimType(snap.Type().Elem()) && !equal(snap, got, true) {
			return path + " (slice elements)"
		}
		return ""
	}
	if !equal(snap, got, true) {
		return path
	}
	return ""
}
