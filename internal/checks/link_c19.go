//go:build !only || only_c19

package checks

import _ "verif/internal/checks/c19"
