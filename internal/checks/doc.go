// Package checks links the property checks into the vcheck binary. Every
// check is linked by its own link_cNN.go file so that a single check can be
// built alone (build tags "only only_cNN", see run.sh VERIF_ONLY) while
// others are being edited.
package checks
