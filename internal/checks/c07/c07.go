// Package c07: no input makes the library panic, hang, leak a goroutine or
// allocate without bound.
//
// The oracle consists of monitors only: any returned value or error is fine.
//
//	panic on the calling goroutine -> recovered per call, sig "<class>:panic:<function>"
//	fatal error / hang             -> the supervisor (worker death / stall of the journalled case)
//	goroutine leak                 -> conservation of lexer start/exit events per call,
//	                                  cross-checked with runtime.Stack(all) per case
//	runaway recursion              -> "resolve" events: more than 4000 reference resolutions in
//	                                  one call abort it from inside the hook (before the stack overflows)
//	unbounded allocation           -> "grow" events: a list longer than the bound the
//	                                  property allows aborts the call from inside the hook
//	                                  (nothing is ever materialised)
package c07

import (
	"fmt"
	"math/rand"
	"runtime"
	"strings"
	"sync/atomic"
	"time"

	ucfg "github.com/elastic/go-ucfg"

	"verif/internal/harness"
)

type check struct{}

func init() { harness.Register(check{}) }

func (check) ID() string { return "C07" }

func (check) HangIsViolation() bool { return true }

func (check) StallSeconds() int { return 20 }

func (check) Exhaustive(string) bool { return false }

func (check) Rule() string {
	return "fifteen workloads split over the case index. (a) strings: all strings of length <=5 over `[]{}\"',:\\a1 ` (quick: all <=3 plus a seed-chosen sample of lengths 4-5) through parse.Value, parse.ValueWithConfig under all 32 parse.Config flag combinations (24 legal, 8 illegal), flag.NewFlagKeyValue.Set/String and a ${ENV} reference read with ResolveEnv; all strings of length <=6 over `${}:+?a.0-` (quick: all <=3 plus a sample of 4-6) stored as a setting under VarExp and read with String/Unpack/Has/CountField/FlattenedKeys/Child without resolver and with resolvers echoing bracket-ish text ({ [1, ${a} ...) under the three predefined parse configs. (b) bytes: documents rendered from small trees as JSON, flow/block YAML and HJSON, then bit flips, token deletion/duplication/swap/replacement, garbage insertion, truncation at every offset, pure garbage, nesting up to depth 10000, anchors/aliases/merge keys/tags, through the yaml/json/hjson loaders with {none, PathSep, PathSep+VarExp}; whatever loads is unpacked into map and slice, flattened and probed with Has/String. (c) names x indices: every getter/setter/Has/Remove/Child/CountField/SetChild/NewFrom/Merge with names from a key-spelling table (plus numeric literals just above every index limit) x idx from MinInt..MaxInt on 10 config shapes (incl. nil values, unresolvable and cyclic references) x 10 option sets (quick: a seed-chosen sample of the units, thorough: all). (d) Unpack targets: a table of ~340 target rows (nil, non-pointers, typed nil pointers, nil/typed interfaces, chan/func/unsafe.Pointer/complex, non-string map keys, pre-filled maps/slices/arrays of structs, pointers, interfaces, arrays as map values, recursive types, unexported/embedded fields, inline tags on every kind, callbacks returning errors, pointer-to-map/slice elements, named primitives, Config and rebranded Config targets, every built-in validator on a field of every kind, malformed validator tags) x 21 config fixtures (matching, primitive/object/list mismatches, nil, references incl. cyclic, unresolvable and to ancestors) x 4 option sets, exhaustively in both tiers; recursive pointer types against next-chains of depth 1..50; plus random reflect-built target types with random pre-fill and random configs. (e) one input that spells a namespace more than once: a small tree T and a variant T' (1-3 point mutations: primitive <-> object <-> list <-> nil, push down, pull up) are cut at random depths into entries (joined path -> subtree, numeric segments for list elements, optionally more joined keys inside the values, optionally *Config values), a shuffled subset of 2-5 entries of both is presented in the drawn and in the reverse order as struct with tagged fields (untyped/typed, random ,replace/,append/,prepend/,merge tag options), struct of inline one-key maps, struct of inline values, such a struct under a key / in a list / inlined into an outer struct, string- and interface-keyed maps filled in that order, and as JSON + one of pretty JSON/block YAML/flow YAML/HJSON documents through the three loaders; every Go presentation goes to NewFrom and to Merge into a config holding T under 9 option sets (none, PathSep with separator from {. / :: -}, +VarExp, +EnableNumKeys, +EscapePath, +MaxIdx(7), +ReplaceValues, +AppendValues, +PrependValues+VarExp) and whatever comes out is unpacked into map and slice, flattened and probed with Has/Child; the panic signature carries what the entries say about a shared path (disjoint, shared-namespace-only, nil-meets-value, primitive-twice, object-vs-primitive; computed by a walk over the generator's own trees). (f) histories on one list (top level, nested, nested in a list under VarExp, the root itself; 0-9 initial elements): 2-10 steps mixing Remove(name,i), Set*(name,idx) with idx drawn around the current length, the previous lengths, the initial and the largest length so far, the next power of two, and merges that append/prepend/replace/merge by index; after every step the list is counted and probed with Has at every index, after a seed-chosen half of the steps and at the end it is traversed by Unpack (map, slice, struct), FlattenedKeys, Merge with the config as source (into an empty, a longer and an appending destination), NewFrom(config), NewFrom({x: config, y: [config]}), Child of the list and Child/String of every element; the signature carries the state of the history (set-behind-end-after-remove, set-behind-end, remove-then-set-or-append, set-or-append-only). (g) a ucfg.Config not made by New (pointer, value, pointer to pointer, rebranded, nil pointer) as source of NewFrom and Merge (into New(), a dictionary, a list, a zero value) at the top level and embedded as map value, list element, typed map/slice/array element, struct field, inline field, interface field, under a dotted key, in a reflect-built struct, under 5 option sets, read afterwards and merged a second time; plus 25 readers/writers called on a zero-value receiver. (h) nesting depths 10^3..3*2^20 (quick: 4 depths and 25 of the (route, shape) pairs, thorough: 7 depths and all 100; open/closed lists, objects, mixed, spaced; for documents also block sequences and a reference at the bottom) through parse.Value, parse.ValueWithConfig under 4 configs with arrays, a flag value, an ${ENV} value, a resolver answer and the three loaders without and with PathSep+VarExp (whatever loads is unpacked, flattened and copied) - each (route, shape) in a probe process of its own under the workers' 64 MiB stack cap, ascending depths, so that a fatal error is observed, attributed to the package that recurses and signed, instead of killing the worker. (i) Merge under a global policy (default, ReplaceValues, ReplaceArrValues, AppendValues, PrependValues) x 0-3 per-field options (Field{Merge,Replace,Append,Prepend}Values over 25 plain, dotted, indexed and wildcard names) with PathSep before or after them, onto destinations whose settings are mostly REFERENCES (to primitives, lists, objects, nothing, themselves, their own children, with defaults, spliced), update and destination over the same five keys; merged twice, as Go value and as *Config, unpacked into a pre-filled struct of *Config/map/slice, everything read afterwards; signature carries global policy / field options (after PathSep or not) / onto references or not. (k) arguments: 34 targets with fields/elements of INTERFACE types that hold InitDefaults, Unpack or Validate in their method set (nil and set) x 21 configs x 4 option sets; 30 rows of unsupported or awkward Go values (complex, uintptr, unsafe.Pointer, chan, func, regexp.Regexp and time values by value in unaddressable positions, special floats, named kinds) through NewFrom and Merge into 4 destinations under 5 option sets; SetChild with a nil and a zero-value child x 4 shapes x 3 option sets x 6 names x 4 indices; diff.Type(n).String() for 12 values of n, diff.CompareConfigs with nil configs. (l) wide inputs judged by allocation growth, not by time: for 26 units (a top-level list / a list below a key / a list of lists through the three loaders, NewFrom+Unpack+FlattenedKeys, Merge onto a shorter list under every policy, by index, at top level, Unpack with append tag; strings under VarExp made of n escapes, references, defaults, stray specials, inside and outside an expansion) the bytes allocated (runtime.MemStats.TotalAlloc) for n and 4n units of input must not differ by more than a factor 8 (proportional: 4, re-copying per unit: 16); a unit that passes is run with 10^5 (thorough and the JSON top-level list: 10^6) units where the allocation per unit must stay within 3 x; plus references that multiply (monitored only). (m) rows that can only be judged from outside the process, in probe processes with a heap (256 MB) and processor-time (4 s per row) watchdog: 20 Unpack targets of NAMED pointer types x 6 configs; 9 ways of making a configuration its own descendant with SetChild (receiver, ancestor, ring of three, list element) x 12 walks. (n) as (h): ${...} nested up to 300 000 (thorough 2^20) deep as references, defaults, alternatives, unterminated, read with String/Unpack and inside a JSON document; names of up to 2^20 (thorough 3*2^20) path segments as map key, document key, name argument of SetInt/Int/Has/Child/Remove, inside a ${reference} and as flag name. (m, continued) settings that use each other in LAYERS (diamonds with spliced and with plain middles, three-way fans, diamonds through defaults/alternatives, two-wide ladders, diamonds inside objects and lists, random layered graphs; all leaves empty so that only the work can multiply) at 4, 12, 24, 40, 64 levels, read with String, Unpack, FlattenedKeys, Has, twice; 13 target types that INLINE a pointer to themselves (directly, through a second and a third type, embedded, next to a named pointer, through an inline map / interface, with validators, as map/slice element and field) x 6 configs x 3 option sets, also as Merge source. (o) 38 special and boundary VALUES (NaN, infinities, negative zero, huge/tiny floats, ends of the integer ranges, numbers and durations only text can spell) x how they get into the configuration (Go value, YAML text, through a ${reference}) x position (setting, list element, map value) x 24 target types x 16 validator tags (none, required/nonzero/positive, min/max with ordinary, huge, non-numeric, NaN, duration parameters), enumerated completely in both tiers, plus the typed getters. (p) Go values that CONTAIN THEMSELVES, each row in a probe process (heap and processor-time watchdog, fatal errors signed from the runtime report): 28 shapes of cycle (named pointer, inline pointer with the inline field first / alone / after a named field / embedded / below a named field, map key and list / by value, two and three types inlining pointers to each other, named mutual pointers, map, slice, interface field, inline map, inline interface, typed map and slice, pointer to an interface holding it, map+slice with two routes back, slice and map of pointers, array element; one shared-not-cyclic control) as SOURCE of NewFrom, Merge into an empty and into a populated destination (read afterwards), option set rotating over none / PathSep+AppendValues / ReplaceValues / VarExp+PrependValues; 17 shapes of cyclic pre-filled Unpack TARGETS (cycle through interface{} in a map / slice / field / array element / validated fields / two values holding each other, through a pointer, typed map, typed slice, slice and map of pointers, pointer to interface, inline pointer, inline interface; one shared-not-cyclic control) x 4 configs (two WITHOUT any setting on the cycle: the pre-filled value is only validated; settings for the fields on the cycle; primitives where the cycle is) x 3 option sets; the signature names the kind of edge that closes the cycle. Non-trivial = non-empty input that reached the library; distinct = distinct (workload, input) pair."
}

func (check) Assumptions() []string {
	return []string{
		"only crashes, hangs, leaks and list sizes are judged; every returned value or error is accepted",
		"slot bound of a call = max(MaxIdx+1, number of elements (for loaders: bytes) the caller's own data contains); MaxIdx is 1024 unless the case passes ucfg.MaxIdx",
		"a panic whose innermost non-stdlib frame is in yaml.v2 / hjson-go / encoding/json is reported as decoder-panic:<pkg>, not as a go-ucfg panic",
		"workload (p): a cyclic Go value may be accepted or refused with any error - it only has to return (within 4 s of processor time and 256 MB of heap in the probe process); not generated: user callbacks that panic, Go values (as opposed to text) nested deeper than a few dozen levels",
		"workload (h): text nested up to 3*2^20 deep is executed in a probe process (this binary started again, taken over by an init function of this package before main) with the same limits as a worker (64 MiB goroutine stack, 4 GiB address space); a probe that dies is a violation signed from the runtime's own report on its stderr, one that uses more than 15 s of processor time is signed hang:deep-nesting:<kind of text>; the in-process workloads stay at or below 10000 levels",
		"workload (l): 'returns' for wide inputs is judged by a logical cost - bytes allocated for n and 4n units of input (factor bound 8) - never by wall time; an implementation that is slow by a constant factor passes",
		"not judged (monitored only): the SIZE of a correctly computed value. References that multiply (a0 = ${a1}${a1}, ... 37 lines -> 64 GB) make String/Unpack allocate what the result needs; the statement bounds array slots by MaxIdx and says nothing about the length of an expanded string or the number of nodes reached through references - a cap would be a new configured limit, not a correction",
		"not generated: user types whose own methods panic when the library calls them as documented - this includes a struct EMBEDDING a nil Validator/Initializer/Unpacker interface (the promoted method panics in plain Go as well); a NAMED field of such an interface type holding nil is generated (the library must not call through it)",
		"not generated: nil *Config / *Diff RECEIVERS (a nil receiver is not one of the inputs the property quantifies over); nil and zero-value configs as ARGUMENTS (SetChild, Merge, NewFrom, diff.CompareConfigs) and zero-value receivers are generated",
		"step budget: 4000 reference resolutions per call (plus 10 per path segment of the name argument; reads after merges: plus 256 per stored node, at most 30000); the configs read under VarExp have at most a few dozen settings (deep documents hold at most one reference per 1000 levels)",
		"workload (e): which of two map keys (map presentations, loaded documents) the library meets first is Go's map order and not under the check's control - both insertion orders are sent; the struct presentations (field order) are the deterministic carriers of the visiting order",
		"lexer conservation: start==exit is expected the moment a call returns (the exit event is emitted before the channel closes and parseSplice drains until close); an exit event arriving within ~180 ms after the return is accepted (the place of the hook is not part of the claim), only a deficit that stays is a leak",
	}
}

// ---------------------------------------------------------------------------
// plan: case index -> workload segment

type segment struct {
	name string
	n    int
	run  func(m *mon, r *rand.Rand, seed int64, tier string, k int)
}

func plan(tier string) []segment {
	thorough := tier == "thorough"
	pick := func(q, t int) int {
		if thorough {
			return t
		}
		return q
	}
	nParseAll := countStrings(len(parseAlpha), 5)
	nParse3 := countStrings(len(parseAlpha), 3)
	nSpliceAll := countStrings(len(spliceAlpha), 6)
	nSplice3 := countStrings(len(spliceAlpha), 3)
	return []segment{
		{"a-parse-exhaustive", pick(chunks(nParse3, parseChunk), chunks(nParseAll, parseChunk)), runParseExhaustive},
		{"a-parse-sampled", pick(8, 0), runParseSampled},
		{"a-splice-exhaustive", pick(chunks(nSplice3, spliceChunk), chunks(nSpliceAll, spliceChunk)), runSpliceExhaustive},
		{"a-splice-sampled", pick(16, 0), runSpliceSampled},
		{"b-bytes", pick(150, 30000), runBytes},
		{"b-special", len(specialDocs()), runSpecialDoc},
		{"c-names-sampled", pick(400, 0), runNamesSampled},
		{"c-names-all", pick(0, nameUnits()), runNamesAll},
		{"d-targets-table", chunks(targetTableCalls(), targetChunk), runTargetsTable},
		{"d-targets-recursive", 4, runTargetsRecursive},
		{"d-targets-random", pick(300, 50000), runTargetsRandom},
		// appended last: the indices of the earlier segments stay what they were
		{"e-respelled-namespaces", pick(300, 12000), runRespelled},
		{"f-list-histories", pick(300, 20000), runListHistory},
		{"g-zero-value-configs", zeroCases(), runZeroConfig},
		{"h-deep-nesting", deepCases(tier), runDeep},
		// heavy segments are kept apart (neighbouring cases form one batch)
		{"l-growth", growthCases(), runGrowth},
		{"i-merge-policies", pick(300, 20000), runMergePolicies},
		{"k-arguments", argumentCases(), runArguments},
		{"m-probe-units", firstCyclicUnit, runProbeUnit},
		{"n-deep-expressions-and-paths", deepCasesR4(tier), runDeepR4},
		{"o-special-values", specialCases(), runSpecialValues},
		{"p-cyclic-go-values", cyclicUnits, runCyclicUnit},
	}
}

func chunks(n, size int) int { return (n + size - 1) / size }

func (check) Cases(tier string) int {
	n := 0
	for _, s := range plan(tier) {
		n += s.n
	}
	return n
}

func (check) Run(seed int64, tier string, idx int, verbose bool) harness.Result {
	res := harness.NewR(idx)
	r := rand.New(rand.NewSource(harness.Mix(seed, "C07", idx)))
	k := idx
	for _, s := range plan(tier) {
		if k < s.n {
			m := newMon(res, verbose)
			res.SetAdd("workload", s.name)
			if verbose {
				fmt.Printf("case %d = %s #%d\n", idx, s.name, k)
			}
			s.run(m, r, seed, tier, k)
			m.finish()
			if res.Sample == nil && idx < 2 {
				res.Sample = fmt.Sprintf("%s #%d: %d calls", s.name, k, res.Evals)
			}
			return res.Done()
		}
		k -= s.n
	}
	return res.Done()
}

// ---------------------------------------------------------------------------
// monitors

const defaultMaxIdx = 1024

// growAbort is thrown from inside the grow hook: the list a call asks for is
// longer than the property allows. The call is abandoned before the library
// allocates anything.
type growAbort struct{ oldLen, newLen int }

// budgetAbort is thrown from inside the resolve hook: one call performed more
// reference resolutions than any terminating read of the small configs used
// here needs. The call is abandoned before the recursion overflows the stack
// (about 40000 nested levels fit into the workers' 64 MiB).
type budgetAbort struct{}

const stepBudget = 4000

type status int

const (
	stOK status = iota
	stPanic
	stGrew
	stBudget
)

type mon struct {
	res     *harness.R
	verbose bool

	starts, exits int64 // lexer events (emitted on the lexer goroutine)
	grows         int64
	steps         int // reference resolutions of the call in flight
	maxSteps      int
	maxGrow       int
	bound         int // slot bound of the call in flight
	budget        int // step budget of the call in flight

	before map[string]bool // goroutines inside go-ucfg before the case
}

// call describes one library call for the monitors.
type call struct {
	entry  string        // entry point
	class  string        // input class, first part of a panic signature ("" = none)
	bound  int           // slot bound; 0 = MaxIdx default + 1
	budget int           // reference resolutions allowed; 0 = stepBudget
	hasIdx bool          // the entry point got an idx argument
	idx    int           //
	desc   func() string // renders the input (only on violation / verbose)
	// stepClass: input class used instead of class in the signature of a step
	// budget abort (what makes a call run away is the references it meets,
	// not what class says about the input)
	stepClass string
	// msgInSig: the input class is coarse (random targets): the class of the
	// panic message becomes part of the signature
	msgInSig bool
}

func newMon(res *harness.R, verbose bool) *mon {
	m := &mon{res: res, verbose: verbose}
	m.before = ucfgGoroutines()
	ucfg.VerifSetHook(func(kind, site, s string, a, b int) {
		switch kind {
		case "lexer":
			if site == "start" {
				atomic.AddInt64(&m.starts, 1)
			} else if site == "exit" {
				atomic.AddInt64(&m.exits, 1)
			}
		case "resolve":
			// always on the goroutine of the call in flight
			m.steps++
			if m.steps > m.budget {
				panic(budgetAbort{})
			}
		case "grow":
			// always on the goroutine of the call in flight
			m.grows++
			if b > m.maxGrow {
				m.maxGrow = b
			}
			if b > m.bound || b < 0 {
				panic(growAbort{a, b})
			}
		}
	})
	return m
}

func (m *mon) do(c call, f func()) (st status) {
	if c.bound <= 0 {
		c.bound = defaultMaxIdx + 1
	}
	m.bound = c.bound
	if c.budget <= 0 {
		c.budget = stepBudget
	}
	m.budget = c.budget
	m.steps = 0
	s0, e0 := atomic.LoadInt64(&m.starts), atomic.LoadInt64(&m.exits)
	m.res.Eval(1)
	func() {
		defer func() {
			rec := recover()
			if rec == nil {
				return
			}
			if ga, ok := rec.(growAbort); ok {
				st = stGrew
				via := "via-name"
				if c.hasIdx && c.idx >= c.bound && (ga.newLen == c.idx+1 || ga.newLen < 0) {
					via = "via-idx-argument"
				}
				m.res.Ev("grow_aborts", 1)
				m.res.Violate("list-grows-beyond-maxidx:"+c.entry+":"+via,
					"%s asked for a list of %d slots (had %d); the bound for this call is %d slots (max of MaxIdx+1 and the elements of the caller's data); the monitor aborted the call before anything was allocated; input: %s",
					c.entry, ga.newLen, ga.oldLen, c.bound, c.desc())
				return
			}
			pre := c.class
			if pre != "" {
				pre += ":"
			}
			if _, ok := rec.(budgetAbort); ok {
				if c.stepClass != "" {
					pre = c.stepClass + ":"
				}
				st = stBudget
				m.res.Ev("step_budget_aborts", 1)
				m.res.Violate(pre+"step-budget-exceeded:"+c.entry,
					"%s performed more than %d reference resolutions in one call (runaway recursion: left alone it ends in a stack overflow or not at all); the monitor aborted the call; input: %s",
					c.entry, c.budget, c.desc())
				return
			}
			st = stPanic
			owner, fn, trace := classifyPanic()
			msg := fmt.Sprint(rec)
			if len(msg) > 300 {
				msg = msg[:300] + "..."
			}
			m.res.Ev("panics", 1)
			switch owner {
			case "ucfg":
				if c.class != "" && strings.Contains(msg, "nil pointer dereference") {
					// which function touches the nil first is incidental
					fn = "nil-dereference"
				}
				if c.msgInSig {
					fn += ":" + msgClass(msg)
				}
				m.res.Violate(pre+"panic:"+fn, "%s panicked: %q in %s (%s); input: %s", c.entry, msg, fn, trace, c.desc())
			case "decoder":
				m.res.Violate("decoder-panic:"+fn, "%s: panic inside the decoder %s, no go-ucfg frame below it: %q (%s); input: %s", c.entry, fn, msg, trace, c.desc())
			default:
				m.res.Violate("check-defect:panic-in-check-code", "%s: panic raised by the check's own code: %q (%s); input: %s", c.entry, msg, trace, c.desc())
			}
		}()
		f()
	}()
	if m.steps > m.maxSteps {
		m.maxSteps = m.steps
	}
	s1, e1 := atomic.LoadInt64(&m.starts), atomic.LoadInt64(&m.exits)
	// Where exactly the lexer emits its exit event is not part of the claim:
	// if the call returned before the event (a call site moved behind the
	// closing of the channels), the goroutine is given time to get there.
	// Only a deficit that STAYS is a leak.
	for try := 0; s1-s0 > e1-e0 && try < 60; try++ {
		runtime.Gosched()
		time.Sleep(time.Duration(try) * 100 * time.Microsecond)
		e1 = atomic.LoadInt64(&m.exits)
		if s1-s0 <= e1-e0 {
			m.res.Ev("lexer_exit_event_after_return_of_the_call", 1)
		}
	}
	if s1-s0 > e1-e0 {
		m.res.Ev("lexer_conservation_failures", 1)
		m.res.Violate("goroutine-leak:lexer", "%s returned while %d lexer goroutine(s) started by it had not finished (started %d, finished %d); input: %s",
			c.entry, (s1-s0)-(e1-e0), s1-s0, e1-e0, c.desc())
	}
	if m.verbose && st != stOK {
		fmt.Printf("  %s -> status %d; %s\n", c.entry, st, c.desc())
	}
	return st
}

func (m *mon) finish() {
	ucfg.VerifSetHook(nil)
	m.res.Ev("lexer_starts", atomic.LoadInt64(&m.starts))
	m.res.Ev("lexer_exits", atomic.LoadInt64(&m.exits))
	m.res.Ev("grow_events", m.grows)
	m.res.SetAdd("max_list_growth_log2", fmt.Sprint(log2(m.maxGrow)))
	m.res.SetAdd("max_resolutions_per_call_log2", fmt.Sprint(log2(m.maxSteps)))
	// A lexer goroutine that has emitted its exit event may still be winding
	// down: give stragglers time (only a goroutine that stays is a leak).
	for try := 0; ; try++ {
		leaked := ""
		for id, stack := range dumpGoroutines() {
			if !m.before[id] {
				leaked = stack
				break
			}
		}
		m.res.Ev("goroutine_dumps", 1)
		if leaked == "" {
			break
		}
		if try >= 60 {
			m.res.Violate("goroutine-leak", "goroutine with go-ucfg frames still alive after the case (%d checks over >300ms): %s", try, leaked)
			break
		}
		runtime.Gosched()
		time.Sleep(time.Duration(try) * 200 * time.Microsecond)
	}
}

// msgClass reduces a panic message to its first words (up to the first type
// name): "reflect.Set: value of type X is not assignable..." -> "reflect.set-value-of".
func msgClass(msg string) string {
	var words []string
	for _, w := range strings.FieldsFunc(strings.ToLower(msg), func(r rune) bool {
		return !(r >= 'a' && r <= 'z' || r == '.')
	}) {
		if w == "type" || len(words) >= 5 {
			break
		}
		words = append(words, strings.Trim(w, "."))
	}
	return strings.Join(words, "-")
}

func log2(n int) int {
	l := 0
	for n > 1 {
		n >>= 1
		l++
	}
	return l
}

// ucfgGoroutines lists the goroutines (other than the caller) whose stack
// contains go-ucfg frames.
func ucfgGoroutines() map[string]bool {
	out := map[string]bool{}
	for id := range dumpGoroutines() {
		out[id] = true
	}
	return out
}

func dumpGoroutines() map[string]string {
	buf := make([]byte, 1<<18)
	for {
		n := runtime.Stack(buf, true)
		if n < len(buf) {
			buf = buf[:n]
			break
		}
		buf = make([]byte, 2*len(buf))
	}
	out := map[string]string{}
	for i, b := range strings.Split(string(buf), "\n\n") {
		if i == 0 { // the calling goroutine
			continue
		}
		if !strings.Contains(b, "go-ucfg") {
			continue
		}
		id := b
		if j := strings.Index(b, " ["); j > 0 {
			id = b[:j]
		}
		out[id] = b
	}
	return out
}

// classifyPanic is called from the deferred recover: it walks the panicking
// stack from the innermost frame outwards, skipping the runtime and the
// generic standard library, and says who owns the first remaining frame.
func classifyPanic() (owner, fn, trace string) {
	pcs := make([]uintptr, 96)
	n := runtime.Callers(2, pcs)
	frames := runtime.CallersFrames(pcs[:n])
	var tr []string
	for {
		fr, more := frames.Next()
		f := fr.Function
		switch {
		case f == "":
		case strings.Contains(f, "elastic/go-ucfg"):
			short := f[strings.LastIndex(f, "/")+1:]
			short = strings.TrimPrefix(short, "go-ucfg.")
			if owner == "" {
				owner, fn = "ucfg", short
			}
			if len(tr) < 5 {
				tr = append(tr, short)
			}
		case strings.Contains(f, "gopkg.in/yaml.v2"):
			if owner == "" {
				owner, fn = "decoder", "yaml.v2"
			}
		case strings.Contains(f, "hjson-go"):
			if owner == "" {
				owner, fn = "decoder", "hjson-go"
			}
		case strings.HasPrefix(f, "encoding/json."):
			if owner == "" {
				owner, fn = "decoder", "encoding/json"
			}
		case strings.HasPrefix(f, "verif/"):
			if strings.Contains(f, ".(*mon).do") {
				break // the monitor's own wrapper / deferred function
			}
			if owner == "" {
				owner, fn = "check", f
			}
		}
		if !more {
			break
		}
	}
	if owner == "" {
		owner = "check"
	}
	return owner, fn, strings.Join(tr, "<")
}

// ---------------------------------------------------------------------------
// string enumeration

func countStrings(k, maxLen int) int {
	n, p := 0, 1
	for l := 0; l <= maxLen; l++ {
		n += p
		p *= k
	}
	return n
}

// nthString maps i in [0, countStrings) to a string: shorter strings first.
func nthString(alpha string, i int) string {
	k := len(alpha)
	l, p := 0, 1
	for i >= p {
		i -= p
		p *= k
		l++
	}
	b := make([]byte, l)
	for j := l - 1; j >= 0; j-- {
		b[j] = alpha[i%k]
		i /= k
	}
	return string(b)
}

func short(s string) string {
	if len(s) > 400 {
		return fmt.Sprintf("%q...(%d bytes)", s[:400], len(s))
	}
	return fmt.Sprintf("%q", s)
}
