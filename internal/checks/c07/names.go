package c07

import (
	"fmt"
	"math"
	"math/rand"
	"sort"
	"strings"

	ucfg "github.com/elastic/go-ucfg"
)

// workload (c): every getter/setter with names from a key-spelling table and
// indices from MinInt to MaxInt

type shape struct {
	name   string
	varexp bool
	build  func() interface{}
}

type mp = map[string]interface{}
type li = []interface{}

// every list in a shape has 3 elements
const shapeListLen = 3

var shapes = []shape{
	{"empty", false, func() interface{} { return mp{} }},
	{"dict", false, func() interface{} { return mp{"a": 1, "b": "s", "c": true, "é": 2.5} }},
	{"list", false, func() interface{} { return li{1, "x", true} }},
	{"mixed", false, func() interface{} {
		return mp{"a": mp{"b": li{1, 2, 3}}, "0": "zero", "1": mp{"b": 1}, "2": li{1, 2, 3}}
	}},
	{"nested", false, func() interface{} {
		return mp{"a": mp{"b": li{1, mp{"c": 2}, li{3, 4, 5}}, "-1": 3, "0": 5}, "l": li{li{1, 2, 3}, li{4, 5, 6}, li{7, 8, 9}}, " ": 1, "*": mp{"x": 1}, "**": 2, "é": "u"}
	}},
	{"nils", false, func() interface{} {
		return mp{"a": nil, "b": li{nil, nil, nil}, "c": mp{"d": nil}, "0": nil, "l": nil}
	}},
	{"varexp-resolvable", true, func() interface{} {
		return mp{"a": "${x}", "x": mp{"b": li{1, 2, 3}}, "0": "${x.b}", "b": "pre-${x.b.0}-post", "l": li{"${a}", "${l.0}", "x"}}
	}},
	{"varexp-unresolvable", true, func() interface{} {
		return mp{"a": "${nope}", "b": mp{"c": "${nope.deep}"}, "0": "${a}", "l": li{"${nope}", 1, 2}, "é": "${a.b:}", "*": "${nope:?gone}"}
	}},
	{"varexp-cyclic", true, func() interface{} {
		return mp{"a": "${a}", "b": "${c}", "c": "${b}", "0": "${0}", "l": li{"${l}", "${l.0}", "${l.1}"}}
	}},
	{"varexp-cyclic-ancestor", true, func() interface{} {
		return mp{"a": mp{"b": "${a}", "0": "${a.b}"}, "*": "${**}", "**": "${*}", "l": li{mp{"b": "${l}"}, 1, 2}}
	}},
}

type nameOpts struct {
	name   string
	maxIdx int
	opts   []ucfg.Option
}

var nameOptSets = []nameOpts{
	{"none", defaultMaxIdx, nil},
	{"PathSep", defaultMaxIdx, []ucfg.Option{ucfg.PathSep(".")}},
	{"PathSep+EscapePath", defaultMaxIdx, []ucfg.Option{ucfg.PathSep("."), ucfg.EscapePath()}},
	{"MaxIdx(0)", 0, []ucfg.Option{ucfg.MaxIdx(0)}},
	{"MaxIdx(-1)", -1, []ucfg.Option{ucfg.MaxIdx(-1)}},
	{"MaxIdx(7)", 7, []ucfg.Option{ucfg.MaxIdx(7)}},
	{"EnableNumKeys", defaultMaxIdx, []ucfg.Option{ucfg.EnableNumKeys(true)}},
	{"PathSep+MaxIdx(7)", 7, []ucfg.Option{ucfg.PathSep("."), ucfg.MaxIdx(7)}},
	{"PathSep+MaxIdx(0)", 0, []ucfg.Option{ucfg.PathSep("."), ucfg.MaxIdx(0)}},
	{"PathSep+EnableNumKeys", defaultMaxIdx, []ucfg.Option{ucfg.PathSep("."), ucfg.EnableNumKeys(true)}},
}

type nameSpec struct{ label, name string }

var fixedNames = []nameSpec{
	{"empty", ""},
	{"plain", "a"},
	{"dotted", "a.b"},
	{"zero", "0"},
	{"negative-literal", "-1"},
	{"negative-zero", "-0"},
	{"plus-literal", "+1"},
	{"exponent-literal", "1e3"},
	{"hex-literal", "0x10"},
	{"maxint-literal", "9223372036854775807"},
	{"overflow-literal", "18446744073709551616"},
	{"negative-segment", "a.-1.b"},
	{"empty-segment", "a..b"},
	{"separator-only", "."},
	{"trailing-separator", "a."},
	{"leading-separator", ".a"},
	{"bracketed", "[a.b]"},
	{"open-bracket", "["},
	{"star", "*"},
	{"double-star", "**"},
	{"space", " "},
	{"non-ascii", "é"},
	{"10kB", strings.Repeat("k", 10240)},
	{"5000-segments", strings.Repeat("a.", 4999) + "a"},
	// paths into the lists of the shapes and more literal spellings
	{"list-element", "l.0"},
	{"list-of-list-element", "l.0.0"},
	{"list-index-segment", "a.b.1.c"},
	{"list-end-segment", "l.3"},
	{"octal-literal", "010"},
	{"underscore-literal", "1_0"},
	{"binary-literal", "0b11"},
	{"bracketed-index", "[0]"},
	{"5000-numeric-segments", strings.Repeat("0.", 4999) + "0"},
}

// limitNames: numeric literals at and just above the index limit, in
// ascending magnitude.
func limitNames(maxIdx int) []nameSpec {
	var out []nameSpec
	if maxIdx >= 0 {
		out = append(out, nameSpec{"at-limit-literal", fmt.Sprint(maxIdx)}, nameSpec{"at-limit-segment", "l." + fmt.Sprint(maxIdx)})
	}
	for _, v := range overLimit(maxIdx) {
		out = append(out, nameSpec{"over-limit-literal", fmt.Sprint(v)}, nameSpec{"over-limit-segment", "a." + fmt.Sprint(v)})
	}
	out = append(out, nameSpec{"over-limit-hex-literal", "0x10000"}, nameSpec{"over-limit-hex-segment", "l.0x7fffffffffffffff.x"})
	return out
}

func overLimit(maxIdx int) []int {
	vs := []int{maxIdx + 1, 2 * maxIdx, 1 << 16, 1 << 20, 1 << 31, 1 << 40, math.MaxInt64}
	var out []int
	seen := map[int]bool{}
	for _, v := range vs {
		if v > maxIdx && v >= 0 && !seen[v] {
			seen[v] = true
			out = append(out, v)
		}
	}
	sort.Ints(out)
	return out
}

func namesFor(maxIdx int) []nameSpec {
	return append(append([]nameSpec{}, fixedNames...), limitNames(maxIdx)...)
}

func idxValues(maxIdx int) []int {
	vs := []int{math.MinInt64, -1 << 31, -2, -1, 0, 1, shapeListLen - 1, shapeListLen, maxIdx}
	vs = append(vs, overLimit(maxIdx)...)
	seen := map[int]bool{}
	var out []int
	for _, v := range vs {
		if !seen[v] {
			seen[v] = true
			out = append(out, v)
		}
	}
	sort.Ints(out)
	return out
}

// maxNames is the (constant) number of names per option set: the limit names
// differ per MaxIdx but their number does not, except that MaxIdx(-1) has no
// at-limit names and small limits merge some magnitudes; units beyond the
// actual count of an option set are empty.
const maxNames = 64

const nameGroups = 2 // getters, setters

func nameUnits() int { return len(shapes) * len(nameOptSets) * maxNames * nameGroups }

func runNamesAll(m *mon, r *rand.Rand, seed int64, tier string, k int) {
	runNameUnit(m, k)
	m.res.Ev("c_units_enumerated", 1)
}

func runNamesSampled(m *mon, r *rand.Rand, seed int64, tier string, k int) {
	for {
		u := r.Intn(nameUnits())
		if runNameUnit(m, u) {
			break
		}
	}
	m.res.Ev("c_units_sampled", 1)
}

func classOfNameCall(label, name string, hasIdx bool, idx, maxIdx int) string {
	switch {
	case hasIdx && (idx < -1 || (idx == -1 && name == "")):
		return "negative-idx-argument"
	case hasIdx && idx > maxIdx && idx > shapeListLen:
		return "over-limit-idx-argument"
	}
	return "name-" + label
}

func runNameUnit(m *mon, u int) bool {
	group := u % nameGroups
	u /= nameGroups
	ni := u % maxNames
	u /= maxNames
	o := nameOptSets[u%len(nameOptSets)]
	sh := shapes[u/len(nameOptSets)]
	names := namesFor(o.maxIdx)
	if ni >= len(names) {
		return false
	}
	ns := names[ni]
	res := m.res
	opts := append([]ucfg.Option{}, o.opts...)
	if sh.varexp {
		opts = append(opts, ucfg.VarExp)
	}
	bound := o.maxIdx + 1
	if bound < shapeListLen+1 {
		bound = shapeListLen + 1
	}
	// every path segment of the name may legitimately resolve a reference again
	budget := stepBudget + 10*(strings.Count(ns.name, ".")+1)
	build := func() *ucfg.Config {
		var c *ucfg.Config
		m.do(call{entry: "NewFrom", bound: bound, budget: budget, desc: func() string { return "shape " + sh.name + " options " + o.name }}, func() {
			c, _ = ucfg.NewFrom(sh.build(), opts...)
		})
		return c
	}
	if build() == nil {
		res.Ev("c_shape_not_buildable", 1)
		return true
	}
	res.Key(fmt.Sprintf("C|%s|%s|%s|%d", sh.name, o.name, ns.label+"#"+fmt.Sprint(ni), group))
	res.SetAdd("input_class", "name-"+ns.label)
	res.SetAdd("config_shape", sh.name)
	res.SetAdd("option_set", o.name)
	if m.verbose {
		fmt.Printf("unit: shape=%s options=%s name[%s]=%s group=%d\n", sh.name, o.name, ns.label, short(ns.name), group)
	}
	name := ns.name
	descr := func(entry string, hasIdx bool, idx int) func() string {
		return func() string {
			if hasIdx {
				return fmt.Sprintf("%s(%s, %d) options %s on shape %s = %v", entry, short(name), idx, o.name, sh.name, sh.build())
			}
			return fmt.Sprintf("%s(%s) options %s on shape %s = %v", entry, short(name), o.name, sh.name, sh.build())
		}
	}
	idxs := idxValues(o.maxIdx)
	for _, i := range idxs {
		res.SetAdd("idx_class", idxClass(i, o.maxIdx))
	}

	if group == 0 {
		c := build()
		type getter struct {
			entry string
			f     func(c *ucfg.Config, idx int)
		}
		getters := []getter{
			{"Bool", func(c *ucfg.Config, idx int) { c.Bool(name, idx, opts...) }},
			{"Int", func(c *ucfg.Config, idx int) { c.Int(name, idx, opts...) }},
			{"Uint", func(c *ucfg.Config, idx int) { c.Uint(name, idx, opts...) }},
			{"Float", func(c *ucfg.Config, idx int) { c.Float(name, idx, opts...) }},
			{"String", func(c *ucfg.Config, idx int) { c.String(name, idx, opts...) }},
			{"Child", func(c *ucfg.Config, idx int) { c.Child(name, idx, opts...) }},
			{"Has", func(c *ucfg.Config, idx int) { c.Has(name, idx, opts...) }},
		}
		for _, g := range getters {
			g := g
			res.SetAdd("entry_point", g.entry)
			for _, idx := range idxs {
				idx := idx
				st := m.do(call{entry: g.entry, class: classOfNameCall(ns.label, name, true, idx, o.maxIdx), bound: bound, budget: budget, hasIdx: true, idx: idx, desc: descr(g.entry, true, idx)},
					func() { g.f(c, idx) })
				if st != stOK {
					c = build()
				}
			}
		}
		res.SetAdd("entry_point", "CountField")
		m.do(call{entry: "CountField", class: "name-" + ns.label, bound: bound, budget: budget, desc: descr("CountField", false, 0)}, func() { c.CountField(name, opts...) })
		res.SetAdd("entry_point", "HasField")
		m.do(call{entry: "HasField", class: "name-" + ns.label, bound: bound, budget: budget, desc: descr("HasField", false, 0)}, func() { c.HasField(name) })
		res.SetAdd("entry_point", "PathOf")
		m.do(call{entry: "PathOf", class: "name-" + ns.label, bound: bound, budget: budget, desc: descr("PathOf", false, 0)}, func() { c.PathOf(name, ".") })
		return true
	}

	type setter struct {
		entry string
		f     func(c *ucfg.Config, idx int) error
	}
	setters := []setter{
		{"SetBool", func(c *ucfg.Config, idx int) error { return c.SetBool(name, idx, true, opts...) }},
		{"SetInt", func(c *ucfg.Config, idx int) error { return c.SetInt(name, idx, -7, opts...) }},
		{"SetUint", func(c *ucfg.Config, idx int) error { return c.SetUint(name, idx, 7, opts...) }},
		{"SetFloat", func(c *ucfg.Config, idx int) error { return c.SetFloat(name, idx, 0.5, opts...) }},
		{"SetString", func(c *ucfg.Config, idx int) error { return c.SetString(name, idx, "v", opts...) }},
		{"SetChild", func(c *ucfg.Config, idx int) error {
			child, err := ucfg.NewFrom(mp{"k": li{1}}, opts...)
			if err != nil {
				return err
			}
			return c.SetChild(name, idx, child, opts...)
		}},
		{"Remove", func(c *ucfg.Config, idx int) error { _, err := c.Remove(name, idx, opts...); return err }},
	}
	for _, s := range setters {
		s := s
		res.SetAdd("entry_point", s.entry)
		accepted := false
		for _, idx := range idxs {
			idx := idx
			if accepted && idx > o.maxIdx {
				// a smaller over-limit index was already accepted by this entry point
				res.Ev("c_over_limit_idx_not_sent_after_first_accepted", 1)
				continue
			}
			c := build()
			if c == nil {
				return true
			}
			var err error
			st := m.do(call{entry: s.entry, class: classOfNameCall(ns.label, name, true, idx, o.maxIdx), bound: bound, budget: budget, hasIdx: true, idx: idx, desc: descr(s.entry, true, idx)},
				func() { err = s.f(c, idx) })
			if st == stGrew && idx > o.maxIdx {
				accepted = true
			}
			if st == stOK && err == nil {
				res.Ev("c_setter_calls_accepted", 1)
				if idx >= -1 && idx <= 1 {
					d := func() string { return "after successful " + descr(s.entry, true, idx)() }
					m.do(call{entry: "Unpack", class: "after-" + s.entry, bound: bound, budget: budget, desc: d}, func() {
						var out map[string]interface{}
						c.Unpack(&out, opts...)
					})
					m.do(call{entry: "FlattenedKeys", class: "after-" + s.entry, bound: bound, budget: budget, desc: d}, func() { c.FlattenedKeys(opts...) })
				}
			} else if st == stOK {
				res.Ev("c_setter_calls_refused", 1)
			}
		}
	}
	// the name as a key of the caller's data
	res.SetAdd("entry_point", "NewFrom(key)")
	m.do(call{entry: "NewFrom", class: "name-" + ns.label, bound: bound, budget: budget, desc: func() string { return fmt.Sprintf("NewFrom({%s: 1}) options %s", short(name), o.name) }}, func() {
		c, err := ucfg.NewFrom(map[string]interface{}{name: 1}, opts...)
		if err == nil && c != nil {
			var out map[string]interface{}
			c.Unpack(&out, opts...)
			c.FlattenedKeys(opts...)
		}
	})
	res.SetAdd("entry_point", "Merge(key)")
	if c := build(); c != nil {
		m.do(call{entry: "Merge", class: "name-" + ns.label, bound: bound, budget: budget, desc: func() string {
			return fmt.Sprintf("Merge({%s: {k: [1]}}) options %s into shape %s", short(name), o.name, sh.name)
		}}, func() {
			c.Merge(map[string]interface{}{name: mp{"k": li{1}}}, opts...)
		})
		m.do(call{entry: "Unpack", class: "after-Merge", bound: bound, budget: budget, desc: func() string {
			return fmt.Sprintf("after Merge({%s: {k: [1]}}) options %s into shape %s", short(name), o.name, sh.name)
		}}, func() {
			var out map[string]interface{}
			c.Unpack(&out, opts...)
		})
	}
	return true
}

func idxClass(idx, maxIdx int) string {
	switch {
	case idx == math.MinInt64:
		return "MinInt"
	case idx < -1:
		return "negative"
	case idx == -1:
		return "-1"
	case idx < shapeListLen:
		return "inside-list"
	case idx == shapeListLen:
		return "len"
	case idx == maxIdx:
		return "MaxIdx"
	case idx == maxIdx+1:
		return "MaxIdx+1"
	case idx == math.MaxInt64:
		return "MaxInt"
	case idx > maxIdx:
		return fmt.Sprintf("over-limit-2^%d", log2(idx))
	}
	return "other"
}
