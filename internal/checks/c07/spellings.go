package c07

import (
	"fmt"
	"math/rand"
	"reflect"
	"strings"

	ucfg "github.com/elastic/go-ucfg"
)

// workload (e): ONE input that spells a namespace more than once.
//
// With PathSep set, a setting a.b.c can be written nested ({a: {b: {c: 1}}}),
// with a dotted key ("a.b.c": 1) or as any mixture ("a.b": {c: 1}), numeric
// segments address list elements. An input (Go struct with tagged fields,
// inline maps, a map, a document) may use several spellings at once; the
// library folds them into one tree while it walks the input, so what it does
// depends on what the spellings say about a shared path (nothing, two
// namespaces, a namespace and a primitive, two primitives, nil) AND on the
// order it meets them in.
//
// The generator draws a small tree T and a variant T' (point mutations that
// turn primitives into objects/lists and back), cuts both into entries
// (path -> subtree) at random depths, and presents a shuffled subset of all
// entries - in the drawn order and in the reverse order - as
//
//	struct fields with `config:"<path>"` tags        (field order: deterministic)
//	struct of inline one-key maps {"<path>": v}      (deterministic, normalizeMapInto)
//	struct of inline values                          (objects spread into the holder)
//	a struct of those nested under a key / in a list / inlined in an outer struct
//	map[string]interface{} filled in that order      (Go map order)
//	JSON / YAML / HJSON documents with those keys    (through the three loaders)
//
// to NewFrom and to Merge (into a config built from T) under every option
// set, and reads whatever came out. Oracle: the monitors only.

type nsNode struct {
	kind byte // 'p' primitive, 'n' nil, 'm' map, 'l' list
	prim interface{}
	keys []string // maps only
	kids []*nsNode
}

type nsEntry struct {
	path []string
	val  *nsNode
}

var nsKeys = []string{"a", "b", "c", "a", "b", "0", "1"}
var nsOddKeys = []string{"2", "7", "8", "-1", "", "*", "é", "1024", "1025", "00", "a b"}

var nsPrims = []interface{}{
	int64(1), int64(2), int64(-1), int64(0), uint64(1) << 63, 2.5, true, false,
	"s", "", "${a}", "${a.b}", "${a.b.c:d}", "${b.0}", "a.b", "[1,2]", "${",
}

func nsKey(r *rand.Rand) string {
	if r.Intn(24) == 0 {
		return nsOddKeys[r.Intn(len(nsOddKeys))]
	}
	return nsKeys[r.Intn(len(nsKeys))]
}

func nsLeaf(r *rand.Rand) *nsNode {
	if r.Intn(5) == 0 {
		return &nsNode{kind: 'n'}
	}
	return &nsNode{kind: 'p', prim: nsPrims[r.Intn(len(nsPrims))]}
}

func genNS(r *rand.Rand, depth int) *nsNode {
	k := r.Intn(10)
	if depth <= 0 {
		k = r.Intn(5)
	}
	switch {
	case k < 4:
		return nsLeaf(r)
	case k == 4:
		if r.Intn(2) == 0 {
			return &nsNode{kind: 'm'}
		}
		return &nsNode{kind: 'l'}
	case k < 8:
		n := &nsNode{kind: 'm'}
		seen := map[string]bool{}
		for i, c := 0, 1+r.Intn(3); i < c; i++ {
			key := nsKey(r)
			if seen[key] {
				continue
			}
			seen[key] = true
			n.keys = append(n.keys, key)
			n.kids = append(n.kids, genNS(r, depth-1))
		}
		return n
	default:
		n := &nsNode{kind: 'l'}
		for i, c := 0, 1+r.Intn(3); i < c; i++ {
			n.kids = append(n.kids, genNS(r, depth-1))
		}
		return n
	}
}

func (n *nsNode) clone() *nsNode {
	c := &nsNode{kind: n.kind, prim: n.prim, keys: append([]string(nil), n.keys...)}
	for _, k := range n.kids {
		c.kids = append(c.kids, k.clone())
	}
	return c
}

func (n *nsNode) container() bool { return n.kind == 'm' || n.kind == 'l' }

func (n *nsNode) key(i int) string {
	if n.kind == 'l' {
		return fmt.Sprint(i)
	}
	return n.keys[i]
}

func (n *nsNode) count() int {
	c := 1
	for _, k := range n.kids {
		c += k.count()
	}
	return c
}

// nsSlots lists every place a subtree hangs at (the root excluded).
func nsSlots(n *nsNode, out []**nsNode) []**nsNode {
	for i := range n.kids {
		out = append(out, &n.kids[i])
		out = nsSlots(n.kids[i], out)
	}
	return out
}

// nsVariant: a copy of t with one to three point mutations; most of them
// change the kind of a node (primitive <-> object <-> list <-> nil).
func nsVariant(r *rand.Rand, t *nsNode) (*nsNode, []string) {
	v := t.clone()
	var ops []string
	for n := 1 + r.Intn(3); n > 0; n-- {
		slots := nsSlots(v, nil)
		if len(slots) == 0 {
			break
		}
		s := slots[r.Intn(len(slots))]
		old := *s
		switch r.Intn(9) {
		case 0:
			*s = nsLeaf(r)
			ops = append(ops, "to-leaf")
		case 1:
			*s = &nsNode{kind: 'n'}
			ops = append(ops, "to-nil")
		case 2:
			*s = &nsNode{kind: 'm'}
			ops = append(ops, "to-empty-object")
		case 3:
			*s = &nsNode{kind: 'l'}
			ops = append(ops, "to-empty-list")
		case 4: // push down: an object where the node was
			*s = &nsNode{kind: 'm', keys: []string{nsKey(r)}, kids: []*nsNode{old}}
			ops = append(ops, "push-into-object")
		case 5: // push down: a list where the node was
			*s = &nsNode{kind: 'l', kids: []*nsNode{old}}
			ops = append(ops, "push-into-list")
		case 6: // pull up: a child where the node was
			if len(old.kids) > 0 {
				*s = old.kids[r.Intn(len(old.kids))]
				ops = append(ops, "pull-up-child")
			} else {
				*s = &nsNode{kind: 'm', keys: []string{nsKey(r)}, kids: []*nsNode{nsLeaf(r)}}
				ops = append(ops, "leaf-to-object")
			}
		case 7: // object <-> list of the same children
			switch old.kind {
			case 'm':
				*s = &nsNode{kind: 'l', kids: old.kids}
				ops = append(ops, "object-to-list")
			case 'l':
				n := &nsNode{kind: 'm'}
				for i, k := range old.kids {
					n.keys = append(n.keys, fmt.Sprint(i))
					n.kids = append(n.kids, k)
				}
				*s = n
				ops = append(ops, "list-to-numeric-keys")
			default:
				*s = &nsNode{kind: 'l', kids: []*nsNode{nsLeaf(r)}}
				ops = append(ops, "leaf-to-list")
			}
		default:
			*s = genNS(r, 2)
			ops = append(ops, "fresh-subtree")
		}
	}
	return v, ops
}

// nsSpell cuts t into entries: below the root, every non-empty container is
// either kept as the value of one entry or spelled out child by child.
func nsSpell(r *rand.Rand, n *nsNode, path []string, out []nsEntry) []nsEntry {
	if n.container() && len(n.kids) > 0 && (len(path) == 0 || (len(path) < 4 && r.Intn(2) == 0)) {
		for i, k := range n.kids {
			p := append(append([]string(nil), path...), n.key(i))
			out = nsSpell(r, k, p, out)
		}
		return out
	}
	if len(path) == 0 {
		return out
	}
	return append(out, nsEntry{path, n})
}

// nsGo renders a subtree as a Go value. fold: a key of a map may swallow the
// keys of its child ("b": {"c": v} -> "b.c": v), completely or in part.
func nsGo(r *rand.Rand, n *nsNode, sep string, fold bool) interface{} {
	switch n.kind {
	case 'p':
		return n.prim
	case 'n':
		return nil
	case 'l':
		out := make([]interface{}, 0, len(n.kids))
		for _, k := range n.kids {
			out = append(out, nsGo(r, k, sep, fold))
		}
		return out
	}
	out := map[string]interface{}{}
	var put func(key string, k *nsNode)
	put = func(key string, k *nsNode) {
		if fold && k.container() && len(k.kids) > 0 && r.Intn(4) == 0 {
			// spell (some of) the children with a longer key
			rest := &nsNode{kind: k.kind}
			for i, kk := range k.kids {
				if k.kind == 'l' || r.Intn(3) > 0 {
					put(key+sep+k.key(i), kk)
				} else {
					rest.keys = append(rest.keys, k.keys[i])
					rest.kids = append(rest.kids, kk)
				}
			}
			if len(rest.kids) > 0 {
				out[key] = nsGo(r, rest, sep, fold)
			}
			return
		}
		out[key] = nsGo(r, k, sep, fold)
	}
	for i, k := range n.kids {
		put(n.keys[i], k)
	}
	return out
}

func nsText(n *nsNode) string {
	switch n.kind {
	case 'p':
		return fmt.Sprintf("%#v", n.prim)
	case 'n':
		return "nil"
	case 'l':
		var s []string
		for _, k := range n.kids {
			s = append(s, nsText(k))
		}
		return "[" + strings.Join(s, ", ") + "]"
	}
	var s []string
	for i, k := range n.kids {
		s = append(s, fmt.Sprintf("%q: %s", n.keys[i], nsText(k)))
	}
	return "{" + strings.Join(s, ", ") + "}"
}

func nsEntriesText(es []nsEntry, sep string) string {
	var s []string
	for _, e := range es {
		s = append(s, fmt.Sprintf("%q = %s", strings.Join(e.path, sep), nsText(e.val)))
	}
	return strings.Join(s, " ; ")
}

// ---------------------------------------------------------------------------
// what the entries say about shared paths (independent of the library: a
// plain walk over the generator's own trees)

// nsDefs: every path an entry says something about -> kind there
// ('m'/'l' namespace, 'p' primitive, 'n' nil). A key that contains the
// separator counts as the segments it is split into.
func nsDefs(e nsEntry, sep string) map[string]byte {
	out := map[string]byte{}
	var path []string
	push := func(key string) {
		for _, s := range strings.Split(key, sep) {
			if len(path) > 0 {
				if _, ok := out[strings.Join(path, "\x00")]; !ok {
					out[strings.Join(path, "\x00")] = 'm' // implied namespace
				}
			}
			path = append(path, s)
		}
	}
	for _, s := range e.path {
		push(s)
	}
	var walk func(n *nsNode)
	walk = func(n *nsNode) {
		out[strings.Join(path, "\x00")] = n.kind
		for i, k := range n.kids {
			l := len(path)
			push(n.key(i))
			walk(k)
			path = path[:l]
		}
	}
	walk(e.val)
	return out
}

const (
	colDisjoint = iota
	colSharedNamespace
	colNil
	colPrimitiveTwice
	colObjectVsPrimitive
)

var colNames = []string{"disjoint", "shared-namespace-only", "nil-meets-value", "primitive-twice", "object-vs-primitive"}

// nsCollision classifies an input by the strongest thing two of its entries
// say about one path; deeperFirst: in the strongest pair the entry with the
// longer spelled path comes first.
func nsCollision(es []nsEntry, sep string) (class int, deeperFirst bool) {
	defs := make([]map[string]byte, len(es))
	for i, e := range es {
		defs[i] = nsDefs(e, sep)
	}
	for i := range es {
		for j := i + 1; j < len(es); j++ {
			for p, ki := range defs[i] {
				kj, ok := defs[j][p]
				if !ok {
					continue
				}
				ci, cj := ki == 'm' || ki == 'l', kj == 'm' || kj == 'l'
				c := colSharedNamespace
				switch {
				case ci && cj:
				case ki == 'n' || kj == 'n':
					c = colNil
				case ci != cj:
					c = colObjectVsPrimitive
				default:
					c = colPrimitiveTwice
				}
				if c > class {
					class = c
					deeperFirst = len(es[i].path) > len(es[j].path)
				}
			}
		}
	}
	return class, deeperFirst
}

// ---------------------------------------------------------------------------
// presentations

var tIface = reflect.TypeOf((*interface{})(nil)).Elem()
var tStrMap = reflect.TypeOf(map[string]interface{}(nil))

var nsTagSuffix = []string{"", "", "", "", "", ",replace", ",append", ",prepend", ",merge"}

type nsField struct {
	tag string
	typ reflect.Type
	val interface{}
}

func nsStruct(fs []nsField) (out interface{}) {
	defer func() {
		if recover() != nil {
			out = nil // reflect refuses the type
		}
	}()
	sf := make([]reflect.StructField, len(fs))
	for i, f := range fs {
		sf[i] = reflect.StructField{Name: fmt.Sprintf("F%d", i), Type: f.typ, Tag: reflect.StructTag(f.tag)}
	}
	v := reflect.New(reflect.StructOf(sf)).Elem()
	for i, f := range fs {
		if f.val != nil {
			v.Field(i).Set(reflect.ValueOf(f.val))
		}
	}
	return v.Interface()
}

func nsTag(name, suffix string) string {
	return fmt.Sprintf("config:%q", name+suffix)
}

type nsPresentation struct {
	name  string
	build func(es []nsEntry, vals []interface{}, sep string, sfx []string) interface{}
	// eff: the entries as this presentation hands them over, if it moves
	// them to other paths (nil = as they are, possibly below a common prefix)
	eff func(es []nsEntry) []nsEntry
}

// nsInlinedEntries: what struct-of-inline-values makes of the entries - the
// first one keeps its name, the others lose their first segment; an object
// that is left without a name is spread key by key, anything else without a
// name defines nothing.
func nsInlinedEntries(es []nsEntry) []nsEntry {
	var out []nsEntry
	for i, e := range es {
		switch {
		case i == 0:
			out = append(out, e)
		case len(e.path) > 1:
			out = append(out, nsEntry{e.path[1:], e.val})
		case e.val.kind == 'm':
			for j, k := range e.val.kids {
				out = append(out, nsEntry{[]string{e.val.keys[j]}, k})
			}
		}
	}
	return out
}

func nsTaggedFields(es []nsEntry, vals []interface{}, sep string, sfx []string, typed bool) []nsField {
	var fs []nsField
	for i, e := range es {
		typ := tIface
		if typed && vals[i] != nil {
			typ = reflect.TypeOf(vals[i])
		}
		fs = append(fs, nsField{nsTag(strings.Join(e.path, sep), sfx[i]), typ, vals[i]})
	}
	return fs
}

var nsPresentations = []nsPresentation{
	{"struct-tagged-fields", func(es []nsEntry, vals []interface{}, sep string, sfx []string) interface{} {
		return nsStruct(nsTaggedFields(es, vals, sep, sfx, false))
	}, nil},
	{"struct-typed-tagged-fields", func(es []nsEntry, vals []interface{}, sep string, sfx []string) interface{} {
		return nsStruct(nsTaggedFields(es, vals, sep, sfx, true))
	}, nil},
	{"struct-of-inline-one-key-maps", func(es []nsEntry, vals []interface{}, sep string, sfx []string) interface{} {
		var fs []nsField
		for i, e := range es {
			fs = append(fs, nsField{nsTag("", ",inline"), tStrMap, map[string]interface{}{strings.Join(e.path, sep): vals[i]}})
		}
		return nsStruct(fs)
	}, nil},
	{"struct-of-inline-values", func(es []nsEntry, vals []interface{}, sep string, sfx []string) interface{} {
		// objects are spread into the holder; the first entry keeps its name
		var fs []nsField
		for i, e := range es {
			if i == 0 {
				fs = append(fs, nsField{nsTag(strings.Join(e.path, sep), sfx[i]), tIface, vals[i]})
				continue
			}
			v := vals[i]
			if len(e.path) > 1 {
				v = map[string]interface{}{strings.Join(e.path[1:], sep): v}
			}
			fs = append(fs, nsField{nsTag("", ",inline"), tIface, v})
		}
		return nsStruct(fs)
	}, nsInlinedEntries},
	{"struct-under-key", func(es []nsEntry, vals []interface{}, sep string, sfx []string) interface{} {
		return map[string]interface{}{"n": nsStruct(nsTaggedFields(es, vals, sep, sfx, false))}
	}, nil},
	{"struct-in-list", func(es []nsEntry, vals []interface{}, sep string, sfx []string) interface{} {
		return []interface{}{1, nsStruct(nsTaggedFields(es, vals, sep, sfx, false))}
	}, nil},
	{"struct-inlined-in-struct", func(es []nsEntry, vals []interface{}, sep string, sfx []string) interface{} {
		// the first entry in the outer struct, the others in an inlined inner struct
		if len(es) < 2 {
			return nsStruct(nsTaggedFields(es, vals, sep, sfx, false))
		}
		inner := nsStruct(nsTaggedFields(es[1:], vals[1:], sep, sfx[1:], false))
		if inner == nil {
			return nil
		}
		outer := nsTaggedFields(es[:1], vals[:1], sep, sfx[:1], false)
		outer = append(outer, nsField{nsTag("", ",inline"), reflect.TypeOf(inner), inner})
		return nsStruct(outer)
	}, nil},
	{"map-filled-in-order", func(es []nsEntry, vals []interface{}, sep string, sfx []string) interface{} {
		out := map[string]interface{}{}
		for i, e := range es {
			out[strings.Join(e.path, sep)] = vals[i]
		}
		return out
	}, nil},
	{"interface-keyed-map-filled-in-order", func(es []nsEntry, vals []interface{}, sep string, sfx []string) interface{} {
		out := map[interface{}]interface{}{}
		for i, e := range es {
			out[strings.Join(e.path, sep)] = vals[i]
		}
		return out
	}, nil},
}

type nsOpt struct {
	name   string
	maxIdx int
	numKey bool
	pathed bool
	varexp bool
	opts   func(sep string) []ucfg.Option
}

var nsOpts = []nsOpt{
	{"none", defaultMaxIdx, false, false, false, func(sep string) []ucfg.Option { return nil }},
	{"PathSep", defaultMaxIdx, false, true, false, func(sep string) []ucfg.Option { return []ucfg.Option{ucfg.PathSep(sep)} }},
	{"PathSep+VarExp", defaultMaxIdx, false, true, true, func(sep string) []ucfg.Option { return []ucfg.Option{ucfg.PathSep(sep), ucfg.VarExp} }},
	{"PathSep+EnableNumKeys", defaultMaxIdx, true, true, false, func(sep string) []ucfg.Option {
		return []ucfg.Option{ucfg.PathSep(sep), ucfg.EnableNumKeys(true)}
	}},
	{"PathSep+EscapePath", defaultMaxIdx, false, true, false, func(sep string) []ucfg.Option { return []ucfg.Option{ucfg.PathSep(sep), ucfg.EscapePath()} }},
	{"PathSep+MaxIdx(7)", 7, false, true, false, func(sep string) []ucfg.Option { return []ucfg.Option{ucfg.PathSep(sep), ucfg.MaxIdx(7)} }},
	{"PathSep+ReplaceValues", defaultMaxIdx, false, true, false, func(sep string) []ucfg.Option { return []ucfg.Option{ucfg.PathSep(sep), ucfg.ReplaceValues} }},
	{"PathSep+AppendValues", defaultMaxIdx, false, true, false, func(sep string) []ucfg.Option { return []ucfg.Option{ucfg.PathSep(sep), ucfg.AppendValues} }},
	{"PathSep+PrependValues+VarExp", defaultMaxIdx, false, true, true, func(sep string) []ucfg.Option {
		return []ucfg.Option{ucfg.PathSep(sep), ucfg.PrependValues, ucfg.VarExp}
	}},
}

var nsSeps = []string{".", ".", ".", ".", "/", "::", "-"}

// nsDocNode: the entries as one top-level object with joined keys.
func nsDocNode(r *rand.Rand, es []nsEntry) *tnode {
	var conv func(n *nsNode) *tnode
	conv = func(n *nsNode) *tnode {
		switch n.kind {
		case 'p':
			return &tnode{kind: 's', scalar: n.prim}
		case 'n':
			return &tnode{kind: 's', scalar: nil}
		case 'l':
			t := &tnode{kind: 'l'}
			for _, k := range n.kids {
				t.kids = append(t.kids, conv(k))
			}
			return t
		}
		t := &tnode{kind: 'm'}
		for i, k := range n.kids {
			key := n.keys[i]
			// a key may swallow the key of an only child
			for k.kind == 'm' && len(k.kids) == 1 && r.Intn(4) == 0 {
				key += "." + k.keys[0]
				k = k.kids[0]
			}
			t.keys = append(t.keys, key)
			t.kids = append(t.kids, conv(k))
		}
		return t
	}
	top := &tnode{kind: 'm'}
	for _, e := range es {
		top.keys = append(top.keys, strings.Join(e.path, "."))
		top.kids = append(top.kids, conv(e.val))
	}
	return top
}

func reverseEntries(es []nsEntry) []nsEntry {
	out := make([]nsEntry, len(es))
	for i, e := range es {
		out[len(es)-1-i] = e
	}
	return out
}

func runRespelled(m *mon, r *rand.Rand, seed int64, tier string, k int) {
	res := m.res
	// T, T' and the entries
	var t *nsNode
	for {
		t = genNS(r, 3)
		if t.kind == 'm' && len(t.kids) > 0 {
			break
		}
		if t.kind == 'l' && len(t.kids) > 0 && r.Intn(4) == 0 {
			break
		}
	}
	t2, ops := nsVariant(r, t)
	all := nsSpell(r, t, nil, nil)
	all = append(all, nsSpell(r, t2, nil, nil)...)
	r.Shuffle(len(all), func(i, j int) { all[i], all[j] = all[j], all[i] })
	n := 2 + r.Intn(4)
	if n > len(all) {
		n = len(all)
	}
	es := all[:n]
	if len(es) == 0 {
		res.Ev("e_no_entries", 1)
		return
	}
	sep := nsSeps[r.Intn(len(nsSeps))]
	fold := r.Intn(3) == 0
	asConfig := r.Intn(5) == 0 // containers are handed over as *ucfg.Config
	sfx := make([]string, len(es))
	for i := range sfx {
		sfx[i] = nsTagSuffix[r.Intn(len(nsTagSuffix))]
	}
	valSeed := r.Int63()

	class, _ := nsCollision(es, sep)
	cname := colNames[class]
	res.Key("E|" + sep + "|" + nsEntriesText(es, sep))
	res.SetAdd("input_class", "respelled-namespace/"+cname)
	res.SetAdd("e_collision_class", cname)
	res.Ev("e_inputs_"+strings.ReplaceAll(cname, "-", "_"), 1)
	for _, op := range ops {
		res.SetAdd("e_variant_op", op)
	}
	res.SetAdd("e_separator", sep)
	res.SetAdd("e_entries", fmt.Sprint(len(es)))
	for _, e := range es {
		res.SetAdd("e_entry_path_segments", fmt.Sprint(len(e.path)))
		res.SetAdd("e_entry_value_kind", string(e.val.kind))
		for _, s := range e.path {
			if s != "" && strings.Trim(s, "0123456789") == "" {
				res.Ev("e_entries_with_numeric_segment", 1)
				break
			}
		}
	}
	if fold {
		res.Ev("e_inputs_with_folded_keys_inside_values", 1)
	}
	if asConfig {
		res.Ev("e_inputs_with_config_values", 1)
	}
	if m.verbose {
		fmt.Printf("T  = %s\nT' = %s (%v)\nentries (sep %q, fold=%v, asConfig=%v, %s): %s\n", nsText(t), nsText(t2), ops, sep, fold, asConfig, cname, nsEntriesText(es, sep))
	}

	// slot bound: the elements of the caller's data; a numeric key or segment
	// N (within the index limit) stands for the N+1 slots of the list it
	// addresses, appending/prepending adds the lists of both sides up
	elements := func(maxIdx int) int {
		n := 0
		num := func(s string) {
			n++
			if s == "" || len(s) > 6 || strings.Trim(s, "0123456789") != "" {
				return
			}
			v := 0
			fmt.Sscan(s, &v)
			if v > maxIdx {
				v = maxIdx
			}
			n += v + 1
		}
		var walk func(x *nsNode)
		walk = func(x *nsNode) {
			n++
			for i, k := range x.kids {
				num(x.key(i))
				walk(k)
			}
		}
		walk(t)
		for _, e := range es {
			for _, s := range e.path {
				num(s)
			}
			walk(e.val)
		}
		return n
	}

	for oi, order := range [][]nsEntry{es, reverseEntries(es)} {
		oname := []string{"drawn-order", "reverse-order"}[oi]
		osfx := sfx
		if oi == 1 {
			osfx = make([]string, len(sfx))
			for i := range sfx {
				osfx[len(sfx)-1-i] = sfx[i]
			}
		}
		if c, deeperFirst := nsCollision(order, sep); c == colObjectVsPrimitive {
			if deeperFirst {
				res.Ev("e_object_vs_primitive_longer_path_first", 1)
			} else {
				res.Ev("e_object_vs_primitive_shorter_or_equal_path_first", 1)
			}
		}
		for _, o := range nsOpts {
			o := o
			opts := o.opts(sep)
			res.SetAdd("option_set", "e:"+o.name)
			bound := o.maxIdx + 1
			if el := elements(o.maxIdx); bound < el+1 {
				bound = el + 1
			}
			// values are rebuilt per option set (a *Config value is made under it)
			mkVals := func() []interface{} {
				vr := rand.New(rand.NewSource(valSeed))
				vals := make([]interface{}, len(order))
				for i, e := range order {
					v := nsGo(vr, e.val, sep, fold)
					if asConfig && e.val.container() {
						if c, err := ucfg.NewFrom(v, opts...); err == nil {
							v = c
						}
					}
					vals[i] = v
				}
				return vals
			}
			for _, p := range nsPresentations {
				p := p
				// what the entries say about shared paths, as this presentation hands them over
				eff, effText := order, ""
				if p.eff != nil {
					eff = p.eff(order)
					effText = "  = as handed over: " + nsEntriesText(eff, sep)
				}
				pc, _ := nsCollision(eff, sep)
				pcname := colNames[pc]
				sigClass := "respelled-namespace/" + pcname
				res.SetAdd("e_presentation_x_collision", p.name+"/"+pcname)
				var in interface{}
				m.do(call{entry: "NewFrom", class: sigClass, bound: bound, desc: func() string { return "building the values of " + nsEntriesText(order, sep) }}, func() {
					in = p.build(order, mkVals(), sep, osfx)
				})
				if in == nil {
					res.Ev("e_presentations_not_constructible", 1)
					continue
				}
				res.SetAdd("e_presentation", p.name)
				d := func() string {
					return fmt.Sprintf("%s, %s, options %s (separator %q): %s%s  [T = %s, T' = %s]", p.name, oname, o.name, sep, nsEntriesText(order, sep), effText, nsText(t), nsText(t2))
				}
				var c *ucfg.Config
				var err error
				st := m.do(call{entry: "NewFrom", class: sigClass, bound: bound, desc: d}, func() { c, err = ucfg.NewFrom(in, opts...) })
				res.SetAdd("entry_point", "NewFrom")
				switch {
				case st != stOK:
				case err != nil || c == nil:
					res.Ev("e_newfrom_refused", 1)
					if o.pathed {
						res.Ev("e_newfrom_refused_"+strings.ReplaceAll(pcname, "-", "_"), 1)
					}
				default:
					res.Ev("e_newfrom_accepted", 1)
					nsRead(m, c, opts, sigClass, bound, func() string { return "after NewFrom of " + d() })
				}
				// the same input merged into a configuration holding T
				var base *ucfg.Config
				m.do(call{entry: "NewFrom", class: sigClass, bound: bound, desc: func() string { return "base " + nsText(t) + " options " + o.name }}, func() {
					base, _ = ucfg.NewFrom(nsGo(rand.New(rand.NewSource(valSeed)), t, sep, false), opts...)
				})
				if base == nil {
					res.Ev("e_base_refused", 1)
					continue
				}
				st = m.do(call{entry: "Merge", class: sigClass, stepClass: "merge-into-config-with-references", bound: bound, desc: func() string { return "into " + nsText(t) + ": " + d() }}, func() { err = base.Merge(in, opts...) })
				res.SetAdd("entry_point", "Merge")
				if st == stOK {
					if err != nil {
						res.Ev("e_merge_refused", 1)
					} else {
						res.Ev("e_merge_accepted", 1)
					}
					// refused or not, the configuration merged into must stay readable
					nsRead(m, base, opts, sigClass, bound, func() string { return "after Merge into " + nsText(t) + " of " + d() })
				}
			}
		}
		// the entries as documents, keys in this order (separator ".")
		dr := rand.New(rand.NewSource(valSeed))
		top := nsDocNode(dr, order)
		dc, _ := nsCollision(order, ".")
		dcname := colNames[dc]
		for _, format := range []string{"json", formats[1+r.Intn(len(formats)-1)]} {
			doc := render(top, format, dr)
			if len(doc) > 4000 {
				continue
			}
			res.SetAdd("e_document_format", format)
			res.Ev("e_documents", 1)
			loadAndReadC(m, doc, "respelled-namespace/"+dcname+"/"+format, "respelled-namespace/"+dcname, false)
		}
	}
	res.Ev("e_respelled_cases", 1)
}

func nsRead(m *mon, c *ucfg.Config, opts []ucfg.Option, sigClass string, bound int, d func() string) {
	// The step budget of a read is relative to what is stored: merges onto
	// references multiply the stored settings, and a read that unfolds every
	// reference once per path legitimately resolves more often than the
	// constant allows (74 stored nodes -> 6552 resolutions, returned in 60 ms;
	// thorough tier, seed 12). 256 resolutions per stored node on top of the
	// constant, capped below the depth at which a runaway recursion would
	// overflow the workers' stack before the monitor sees it.
	budget := stepBudget
	if c != nil {
		n := len(ucfg.VerifWalk(c))
		budget += 256 * n
		if budget > 30000 {
			budget = 30000
		}
		m.res.SetAdd("read_budget_class", fmt.Sprintf("stored-nodes<=%d", 1<<uint(bitLen(n))))
	}
	m.do(call{entry: "Unpack", class: sigClass, bound: bound, budget: budget, desc: func() string { return "into map " + d() }}, func() {
		var out map[string]interface{}
		if c.Unpack(&out, opts...) != nil {
			m.res.Ev("reads_failed", 1)
		}
	})
	m.do(call{entry: "Unpack", class: sigClass, bound: bound, budget: budget, desc: func() string { return "into slice " + d() }}, func() {
		var out []interface{}
		if c.Unpack(&out, opts...) != nil {
			m.res.Ev("reads_failed", 1)
		}
	})
	m.do(call{entry: "FlattenedKeys", class: sigClass, bound: bound, budget: budget, desc: d}, func() { c.FlattenedKeys(opts...) })
	for _, p := range []string{"a", "a.b", "a.0", "a.b.c"} {
		p := p
		m.do(call{entry: "Has", class: sigClass, bound: bound, budget: budget, desc: func() string { return fmt.Sprintf("Has(%q,-1) ", p) + d() }}, func() { c.Has(p, -1, opts...) })
		m.do(call{entry: "Child", class: sigClass, bound: bound, budget: budget, desc: func() string { return fmt.Sprintf("Child(%q,-1) ", p) + d() }}, func() { c.Child(p, -1, opts...) })
	}
}

func bitLen(n int) int {
	b := 0
	for n > 0 {
		b++
		n >>= 1
	}
	return b
}
