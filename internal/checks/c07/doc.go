// Package c07: see DESIGN.md section 3 C07.
package c07
