package c07

import (
	"fmt"
	"math/rand"
	"reflect"

	ucfg "github.com/elastic/go-ucfg"
)

// workload (g): a ucfg.Config that was not made by New (the zero value, as a
// pointer or by value, also rebranded) inside the Go values given to Merge and
// NewFrom: at the top level, as a map value, list element, struct field,
// inline field, behind pointers and interfaces, next to other settings; and as
// the receiver of the readers.

type zeroRow struct {
	label    string
	position string // part of the signature: top-level / embedded
	mk       func() interface{}
}

type zHolder struct {
	A int          `config:"a"`
	C *ucfg.Config `config:"c"`
}

type zHolderVal struct {
	C ucfg.Config `config:"c"`
	B string      `config:"b"`
}

type zInline struct {
	A int          `config:"a"`
	C *ucfg.Config `config:",inline"`
}

type zInlineVal struct {
	C ucfg.Config `config:",inline"`
}

type zIface struct {
	V interface{} `config:"v"`
}

var zeroRows = []zeroRow{
	{"*Config", "top-level", func() interface{} { return &ucfg.Config{} }},
	{"Config by value", "top-level", func() interface{} { return ucfg.Config{} }},
	{"**Config", "top-level", func() interface{} { c := &ucfg.Config{}; return &c }},
	{"rebranded *Config", "top-level", func() interface{} { return &myCfg{} }},
	{"rebranded Config by value", "top-level", func() interface{} { return myCfg{} }},
	{"nil *Config", "top-level", func() interface{} { return (*ucfg.Config)(nil) }},
	{"map value *Config", "embedded", func() interface{} { return mp{"x": &ucfg.Config{}} }},
	{"map value Config", "embedded", func() interface{} { return mp{"a": ucfg.Config{}} }},
	{"map value next to settings", "embedded", func() interface{} { return mp{"a": 1, "x": &ucfg.Config{}, "l": li{1}} }},
	{"map value nil *Config", "embedded", func() interface{} { return mp{"x": (*ucfg.Config)(nil)} }},
	{"map value rebranded", "embedded", func() interface{} { return mp{"x": &myCfg{}} }},
	{"typed map of *Config", "embedded", func() interface{} { return map[string]*ucfg.Config{"x": {}, "y": ucfg.New()} }},
	{"typed map of Config", "embedded", func() interface{} { return map[string]ucfg.Config{"x": {}} }},
	{"list element *Config", "embedded", func() interface{} { return li{&ucfg.Config{}} }},
	{"list element Config", "embedded", func() interface{} { return li{1, ucfg.Config{}, 2} }},
	{"typed slice of *Config", "embedded", func() interface{} { return []*ucfg.Config{{}, ucfg.New(), nil} }},
	{"typed slice of Config", "embedded", func() interface{} { return []ucfg.Config{{}, {}} }},
	{"array of Config", "embedded", func() interface{} { return [2]ucfg.Config{} }},
	{"nested list in map", "embedded", func() interface{} { return mp{"l": li{mp{"c": &ucfg.Config{}}}} }},
	{"struct field *Config", "embedded", func() interface{} { return zHolder{A: 1, C: &ucfg.Config{}} }},
	{"struct field nil *Config", "embedded", func() interface{} { return zHolder{A: 1} }},
	{"struct field Config", "embedded", func() interface{} { return zHolderVal{B: "b"} }},
	{"pointer to struct with Config field", "embedded", func() interface{} { return &zHolderVal{} }},
	{"inline field *Config", "embedded", func() interface{} { return zInline{A: 1, C: &ucfg.Config{}} }},
	{"inline field nil *Config", "embedded", func() interface{} { return zInline{A: 1} }},
	{"inline field Config", "embedded", func() interface{} { return zInlineVal{} }},
	{"interface field holding *Config", "embedded", func() interface{} { return zIface{V: &ucfg.Config{}} }},
	{"interface field holding Config", "embedded", func() interface{} { return zIface{V: ucfg.Config{}} }},
	{"dotted key", "embedded", func() interface{} { return mp{"a.b": &ucfg.Config{}, "a": mp{"c": 1}} }},
	{"reflect-built struct", "embedded", func() interface{} {
		t := reflect.StructOf([]reflect.StructField{
			{Name: "C", Type: reflect.TypeOf(ucfg.Config{}), Tag: `config:"a.c"`},
			{Name: "P", Type: reflect.TypeOf(&ucfg.Config{}), Tag: `config:"a.p"`},
		})
		v := reflect.New(t).Elem()
		v.Field(1).Set(reflect.ValueOf(&ucfg.Config{}))
		return v.Interface()
	}},
}

type zeroDst struct {
	name string
	mk   func(opts []ucfg.Option) *ucfg.Config
}

var zeroDsts = []zeroDst{
	{"New()", func([]ucfg.Option) *ucfg.Config { return ucfg.New() }},
	{"{a:1,x:{y:2},l:[1,2]}", func(o []ucfg.Option) *ucfg.Config {
		c, _ := ucfg.NewFrom(mp{"a": 1, "x": mp{"y": 2}, "l": li{1, 2}, "c": mp{"k": 1}, "v": li{1}}, o...)
		return c
	}},
	{"[1,{x:1}]", func(o []ucfg.Option) *ucfg.Config {
		c, _ := ucfg.NewFrom(li{1, mp{"x": 1}}, o...)
		return c
	}},
	{"zero value", func([]ucfg.Option) *ucfg.Config { return &ucfg.Config{} }},
}

var zeroOpts = []optSet{
	{"none", nil},
	{"PathSep", []ucfg.Option{ucfg.PathSep(".")}},
	{"PathSep+VarExp", []ucfg.Option{ucfg.PathSep("."), ucfg.VarExp}},
	{"ReplaceValues", []ucfg.Option{ucfg.ReplaceValues}},
	{"AppendValues", []ucfg.Option{ucfg.PathSep("."), ucfg.AppendValues}},
}

// one case: a defect of one position shows up as one violating case with its
// own signature, not as thirty cases
func zeroCases() int { return 1 }

func runZeroConfig(m *mon, r *rand.Rand, seed int64, tier string, k int) {
	for _, row := range zeroRows {
		runZeroRow(m, row)
	}
	runZeroReceiver(m)
}

func runZeroRow(m *mon, row zeroRow) {
	res := m.res
	class := "zero-value-config-source/" + row.position
	res.Key("G|" + row.label)
	res.SetAdd("input_class", class)
	res.SetAdd("g_source_row", row.label)
	for _, o := range zeroOpts {
		o := o
		d := func(what string) func() string {
			return func() string {
				return fmt.Sprintf("%s of %s (%T holding a ucfg.Config that was not made by New), options %s", what, row.label, row.mk(), o.name)
			}
		}
		var c *ucfg.Config
		var err error
		st := m.do(call{entry: "NewFrom", class: class, desc: d("NewFrom")}, func() { c, err = ucfg.NewFrom(row.mk(), o.opts...) })
		res.SetAdd("entry_point", "NewFrom")
		if st == stOK && err == nil && c != nil {
			res.Ev("g_newfrom_accepted", 1)
			nsRead(m, c, o.opts, class, defaultMaxIdx+1, d("reads after NewFrom"))
		} else if st == stOK {
			res.Ev("g_newfrom_refused", 1)
		}
		for _, dst := range zeroDsts {
			dst := dst
			to := dst.mk(o.opts)
			if to == nil {
				continue
			}
			dd := d("Merge into " + dst.name)
			st := m.do(call{entry: "Merge", class: class, desc: dd}, func() { err = to.Merge(row.mk(), o.opts...) })
			res.SetAdd("entry_point", "Merge")
			if st != stOK {
				continue
			}
			if err == nil {
				res.Ev("g_merge_accepted", 1)
			} else {
				res.Ev("g_merge_refused", 1)
			}
			// a destination that is a zero value itself and stayed one (nothing
			// was merged) is read as a receiver, whatever the source was
			rclass := class
			if dst.name == "zero value" {
				rclass = "zero-value-config-receiver"
			}
			nsRead(m, to, o.opts, rclass, defaultMaxIdx+1, func() string { return "reads after " + dd() })
			// and once more: the destination now may hold what the source held
			m.do(call{entry: "Merge", class: class, desc: func() string { return "second " + dd() }}, func() { to.Merge(row.mk(), o.opts...) })
		}
	}
	res.Ev("g_source_rows", 1)
}

// runZeroReceiver: every reader and writer called on a zero-value Config.
func runZeroReceiver(m *mon) {
	res := m.res
	class := "zero-value-config-receiver"
	res.Key("G|receiver")
	res.SetAdd("input_class", class)
	type rc struct {
		entry string
		f     func(c *ucfg.Config)
	}
	calls := []rc{
		{"IsDict", func(c *ucfg.Config) { c.IsDict() }},
		{"IsArray", func(c *ucfg.Config) { c.IsArray() }},
		{"GetFields", func(c *ucfg.Config) { c.GetFields() }},
		{"HasField", func(c *ucfg.Config) { c.HasField("a") }},
		{"Has", func(c *ucfg.Config) { c.Has("a", -1) }},
		{"Has", func(c *ucfg.Config) { c.Has("", 0) }},
		{"CountField", func(c *ucfg.Config) { c.CountField("") }},
		{"CountField", func(c *ucfg.Config) { c.CountField("a") }},
		{"String", func(c *ucfg.Config) { c.String("a", -1) }},
		{"Int", func(c *ucfg.Config) { c.Int("", 0) }},
		{"Child", func(c *ucfg.Config) { c.Child("a", -1) }},
		{"Remove", func(c *ucfg.Config) { c.Remove("a", -1) }},
		{"Remove", func(c *ucfg.Config) { c.Remove("", 0) }},
		{"FlattenedKeys", func(c *ucfg.Config) { c.FlattenedKeys() }},
		{"Path", func(c *ucfg.Config) { c.Path(".") }},
		{"PathOf", func(c *ucfg.Config) { c.PathOf("a", ".") }},
		{"Parent", func(c *ucfg.Config) { c.Parent() }},
		{"Unpack", func(c *ucfg.Config) {
			var out map[string]interface{}
			c.Unpack(&out)
		}},
		{"Unpack", func(c *ucfg.Config) {
			var out []interface{}
			c.Unpack(&out)
		}},
		{"SetString", func(c *ucfg.Config) { c.SetString("a", -1, "v") }},
		{"SetInt", func(c *ucfg.Config) { c.SetInt("", 2, 1) }},
		{"SetChild", func(c *ucfg.Config) { c.SetChild("a", -1, ucfg.New()) }},
		{"SetChild", func(c *ucfg.Config) { ucfg.New().SetChild("a", -1, c) }},
		{"Merge", func(c *ucfg.Config) { c.Merge(mp{"a": mp{"b": 1}, "l": li{1}}) }},
		{"Merge", func(c *ucfg.Config) { c.Merge(li{1, 2}) }},
	}
	for _, x := range calls {
		x := x
		res.SetAdd("entry_point", x.entry)
		m.do(call{entry: x.entry, class: class, desc: func() string { return x.entry + " called on &ucfg.Config{} (not made by New)" }}, func() { x.f(&ucfg.Config{}) })
	}
	res.Ev("g_receiver_calls", int64(len(calls)))
}
