package c07

import (
	"fmt"
	"math/rand"
	"strings"

	ucfg "github.com/elastic/go-ucfg"
)

// workload (f): histories on ONE list.
//
// No single call and no boundary index alone shows what a list looks like
// inside after it has shrunk and grown again: a history of Remove(name, i),
// Set*(name, idx) with idx around the current length, earlier lengths and the
// capacities an implementation may have kept, and merges that append / prepend
// / replace, is applied step by step to one configuration; after every step
// the list is counted and probed element by element, and (after a seed-chosen
// half of the steps and always at the end) traversed by everything that
// visits every element: Unpack into map / slice / struct, FlattenedKeys, the
// configuration as SOURCE of Merge and NewFrom (alone and inside a map),
// Child of the list and of every element, String of every element.

type listPlace struct {
	name  string // label
	path  string // name argument addressing the list ("" = the root is the list)
	opts  []ucfg.Option
	build func(l []interface{}) interface{}
	// holder returns the config holding the list as a top-level field and
	// that field's name (CountField takes no path)
	holder func(c *ucfg.Config) (*ucfg.Config, string)
}

var listPlaces = []listPlace{
	{"top-level", "l", nil,
		func(l []interface{}) interface{} { return mp{"l": l, "k": 1} },
		func(c *ucfg.Config) (*ucfg.Config, string) { return c, "l" }},
	{"top-level+PathSep", "l", []ucfg.Option{ucfg.PathSep(".")},
		func(l []interface{}) interface{} { return mp{"l": l} },
		func(c *ucfg.Config) (*ucfg.Config, string) { return c, "l" }},
	{"nested+PathSep", "a.l", []ucfg.Option{ucfg.PathSep(".")},
		func(l []interface{}) interface{} { return mp{"a": mp{"l": l, "k": "v"}} },
		func(c *ucfg.Config) (*ucfg.Config, string) {
			sub, _ := c.Child("a", -1)
			return sub, "l"
		}},
	{"nested-in-list+PathSep+VarExp", "o.1.l", []ucfg.Option{ucfg.PathSep("."), ucfg.VarExp},
		func(l []interface{}) interface{} { return mp{"o": li{0, mp{"l": l}}, "r": "${o.1.l.0}"} },
		func(c *ucfg.Config) (*ucfg.Config, string) {
			sub, _ := c.Child("o", 1)
			return sub, "l"
		}},
	{"root", "", nil,
		func(l []interface{}) interface{} { return l },
		func(c *ucfg.Config) (*ucfg.Config, string) { return c, "" }},
}

var listElems = []func() interface{}{
	func() interface{} { return "s" },
	func() interface{} { return 1 },
	func() interface{} { return true },
	func() interface{} { return 2.5 },
	func() interface{} { return nil },
	func() interface{} { return mp{"x": 1} },
	func() interface{} { return li{1, 2} },
	func() interface{} { return mp{} },
	func() interface{} { return li{} },
}

type histState struct {
	removes        int // successful removals of an element
	setsBehindEnd  int // successful Set with idx > len
	behindAfterRem int // ... after at least one removal
	insideOldLen   int // ... and idx below a length the list had before
	maxLen         int
	n0             int
}

func (h *histState) class() string {
	switch {
	case h.behindAfterRem > 0:
		return "list-history/set-behind-end-after-remove"
	case h.setsBehindEnd > 0:
		return "list-history/set-behind-end"
	case h.removes > 0:
		return "list-history/remove-then-set-or-append"
	}
	return "list-history/set-or-append-only"
}

func nextPow2(n int) int {
	p := 1
	for p < n {
		p <<= 1
	}
	return p
}

func runListHistory(m *mon, r *rand.Rand, seed int64, tier string, k int) {
	res := m.res
	pl := listPlaces[r.Intn(len(listPlaces))]
	n0 := r.Intn(10)
	if r.Intn(4) == 0 {
		n0 = 3 + r.Intn(4)
	}
	initial := make([]interface{}, n0)
	initText := make([]string, n0)
	for i := range initial {
		e := listElems[r.Intn(len(listElems))]()
		if r.Intn(2) == 0 {
			e = fmt.Sprintf("e%d", i)
		}
		initial[i] = e
		initText[i] = fmt.Sprintf("%v", e)
	}
	bound := defaultMaxIdx + 1
	var history []string
	hs := &histState{maxLen: n0, n0: n0}
	desc := func(what string) func() string {
		return func() string {
			return fmt.Sprintf("%s; list %q (%s) initially [%s]; history: %s", what, pl.path, pl.name, strings.Join(initText, " "), strings.Join(history, " ; "))
		}
	}
	var c *ucfg.Config
	m.do(call{entry: "NewFrom", class: hs.class(), bound: bound, desc: desc("NewFrom")}, func() { c, _ = ucfg.NewFrom(pl.build(initial), pl.opts...) })
	if c == nil {
		res.Ev("f_not_buildable", 1)
		return
	}
	res.SetAdd("f_list_place", pl.name)
	res.SetAdd("f_initial_length", fmt.Sprint(n0))
	res.SetAdd("input_class", "list-history")

	// length as the library reports it (-1 = not a list any more / error)
	length := func() int {
		n := -1
		m.do(call{entry: "CountField", class: hs.class(), bound: bound, desc: desc("CountField")}, func() {
			h, field := pl.holder(c)
			if h == nil {
				return
			}
			if v, err := h.CountField(field); err == nil {
				n = v
			}
		})
		return n
	}

	probe := func() {
		cl := hs.class()
		n := length()
		if n < 0 {
			n = 0
		}
		for i := -1; i <= n+1 && i < 64; i++ {
			i := i
			m.do(call{entry: "Has", class: cl, bound: bound, hasIdx: true, idx: i, desc: desc(fmt.Sprintf("Has(%q,%d)", pl.path, i))}, func() { c.Has(pl.path, i, pl.opts...) })
		}
		res.SetAdd("entry_point", "Has")
	}

	traverse := func() {
		cl := hs.class()
		res.Ev("f_traversals", 1)
		res.SetAdd("f_traversed_in_state", cl)
		n := length()
		do := func(entry string, f func()) {
			res.SetAdd("entry_point", entry)
			m.do(call{entry: entry, class: cl, bound: bound, desc: desc(entry)}, f)
		}
		do("Unpack", func() {
			var out map[string]interface{}
			c.Unpack(&out, pl.opts...)
		})
		do("Unpack", func() {
			var out []interface{}
			c.Unpack(&out, pl.opts...)
		})
		do("Unpack", func() {
			var out struct {
				L []interface{} `config:"l"`
				A struct {
					L []interface{} `config:"l"`
				} `config:"a"`
				O []interface{} `config:"o"`
			}
			c.Unpack(&out, pl.opts...)
		})
		do("FlattenedKeys", func() { c.FlattenedKeys(pl.opts...) })
		do("Merge(config as source)", func() { ucfg.New().Merge(c, pl.opts...) })
		do("Merge(config as source)", func() {
			d, err := ucfg.NewFrom(pl.build(li{"x", mp{"y": 1}, li{1}, nil, 5, 6, 7}), pl.opts...)
			if err == nil {
				d.Merge(c, pl.opts...)
				var out interface{}
				d.Unpack(&out, pl.opts...)
			}
		})
		do("Merge(config as source)", func() {
			d, err := ucfg.NewFrom(pl.build(li{"x", "y"}), pl.opts...)
			if err == nil {
				d.Merge(c, append([]ucfg.Option{ucfg.AppendValues}, pl.opts...)...)
				d.FlattenedKeys(pl.opts...)
			}
		})
		do("NewFrom(config)", func() {
			if d, err := ucfg.NewFrom(c, pl.opts...); err == nil {
				d.FlattenedKeys(pl.opts...)
			}
		})
		do("NewFrom(config in a map)", func() {
			if d, err := ucfg.NewFrom(mp{"x": c, "y": li{c}}, pl.opts...); err == nil {
				var out map[string]interface{}
				d.Unpack(&out, pl.opts...)
			}
		})
		do("Child", func() {
			if pl.path == "" {
				return
			}
			if sub, err := c.Child(pl.path, -1, pl.opts...); err == nil && sub != nil {
				var out []interface{}
				sub.Unpack(&out, pl.opts...)
				sub.FlattenedKeys(pl.opts...)
			}
		})
		for i := 0; i < n && i < 64; i++ {
			i := i
			m.do(call{entry: "Child", class: cl, bound: bound, hasIdx: true, idx: i, desc: desc(fmt.Sprintf("Child(%q,%d)", pl.path, i))}, func() { c.Child(pl.path, i, pl.opts...) })
			m.do(call{entry: "String", class: cl, bound: bound, hasIdx: true, idx: i, desc: desc(fmt.Sprintf("String(%q,%d)", pl.path, i))}, func() { c.String(pl.path, i, pl.opts...) })
		}
		res.SetAdd("entry_point", "String")
	}

	steps := 2 + r.Intn(9)
	lens := []int{n0} // lengths the list had
	for s := 0; s < steps; s++ {
		cur := length()
		if cur < 0 {
			cur = 0
		}
		lastLen := lens[len(lens)-1]
		prevLen := lens[0]
		if len(lens) >= 2 {
			prevLen = lens[len(lens)-2]
		}
		op := r.Intn(10)
		if hs.removes < 2 && cur > 0 && r.Intn(2) == 0 {
			op = 0 // histories that shrink first are what this workload is about
		}
		cl := hs.class()
		switch {
		case op < 4: // Remove(name, i)
			cands := []int{0, cur - 1, cur / 2, cur, 0, 0}
			if cur > 0 {
				cands = append(cands, r.Intn(cur))
			}
			if r.Intn(25) == 0 {
				cands = []int{-1}
			}
			i := cands[r.Intn(len(cands))]
			if pl.path == "" && i < 0 {
				i = 0
			}
			var ok bool
			var err error
			history = append(history, fmt.Sprintf("Remove(%q,%d)", pl.path, i))
			st := m.do(call{entry: "Remove", class: cl, bound: bound, hasIdx: true, idx: i, desc: desc("Remove")}, func() { ok, err = c.Remove(pl.path, i, pl.opts...) })
			res.SetAdd("entry_point", "Remove")
			if st == stOK && ok && err == nil {
				history[len(history)-1] += "=ok"
				if i >= 0 {
					hs.removes++
					res.Ev("f_removes_of_an_element", 1)
				} else {
					res.Ev("f_removes_of_the_whole_list", 1)
				}
			}
		case op < 8: // Set*(name, idx)
			cands := []int{0, cur - 1, cur, cur + 1, cur + 1, cur + 2, cur + 3,
				lastLen - 1, lastLen, prevLen - 1, prevLen, prevLen + 1,
				n0 - 1, n0, n0 + 1, hs.maxLen - 1, hs.maxLen, hs.maxLen + 1,
				nextPow2(hs.maxLen) - 1, nextPow2(hs.maxLen), 2*hs.maxLen - 1, 2 * hs.maxLen}
			if cur > 0 {
				cands = append(cands, r.Intn(cur))
			}
			idx := cands[r.Intn(len(cands))]
			if idx < 0 {
				idx = 0
			}
			if idx > 48 {
				idx = 48
			}
			type setter struct {
				name string
				f    func() error
			}
			setters := []setter{
				{"SetBool", func() error { return c.SetBool(pl.path, idx, true, pl.opts...) }},
				{"SetInt", func() error { return c.SetInt(pl.path, idx, -7, pl.opts...) }},
				{"SetUint", func() error { return c.SetUint(pl.path, idx, 7, pl.opts...) }},
				{"SetFloat", func() error { return c.SetFloat(pl.path, idx, 0.5, pl.opts...) }},
				{"SetString", func() error { return c.SetString(pl.path, idx, "v", pl.opts...) }},
				{"SetChild", func() error {
					child, err := ucfg.NewFrom(mp{"k": li{1}}, pl.opts...)
					if err != nil {
						return err
					}
					return c.SetChild(pl.path, idx, child, pl.opts...)
				}},
			}
			su := setters[r.Intn(len(setters))]
			var err error
			history = append(history, fmt.Sprintf("%s(%q,%d)", su.name, pl.path, idx))
			st := m.do(call{entry: su.name, class: cl, bound: bound, hasIdx: true, idx: idx, desc: desc(su.name)}, func() { err = su.f() })
			res.SetAdd("entry_point", su.name)
			if st == stOK && err == nil {
				history[len(history)-1] += "=ok"
				res.Ev("f_sets_accepted", 1)
				switch {
				case idx > cur:
					hs.setsBehindEnd++
					res.Ev("f_sets_behind_the_end", 1)
					if hs.removes > 0 {
						hs.behindAfterRem++
						res.Ev("f_sets_behind_the_end_after_remove", 1)
						if idx < hs.maxLen {
							hs.insideOldLen++
							res.Ev("f_sets_behind_the_end_but_inside_an_earlier_length", 1)
						}
					}
				case idx == cur:
					res.Ev("f_sets_at_the_end", 1)
				default:
					res.Ev("f_sets_inside", 1)
				}
			}
		default: // a merge that appends / prepends / replaces / merges by index
			mode := []struct {
				name string
				opt  ucfg.Option
			}{{"AppendValues", ucfg.AppendValues}, {"PrependValues", ucfg.PrependValues}, {"ReplaceValues", ucfg.ReplaceValues}, {"default", nil}}[r.Intn(4)]
			add := make(li, r.Intn(4))
			for i := range add {
				add[i] = fmt.Sprintf("m%d", i)
			}
			opts := append([]ucfg.Option{}, pl.opts...)
			if mode.opt != nil {
				opts = append(opts, mode.opt)
			}
			var err error
			history = append(history, fmt.Sprintf("Merge(%d elements, %s)", len(add), mode.name))
			st := m.do(call{entry: "Merge", class: cl, bound: bound, desc: desc("Merge")}, func() { err = c.Merge(pl.build(add), opts...) })
			res.SetAdd("entry_point", "Merge")
			if st == stOK && err == nil {
				history[len(history)-1] += "=ok"
				res.Ev("f_merges_"+mode.name, 1)
			}
		}
		if n := length(); n >= 0 {
			lens = append(lens, n)
			if n > hs.maxLen {
				hs.maxLen = n
			}
		}
		probe()
		if s == steps-1 || r.Intn(2) == 0 {
			traverse()
		}
	}
	res.Key("F|" + pl.name + "|" + strings.Join(initText, ",") + "|" + strings.Join(history, ";"))
	res.SetAdd("f_history_class", hs.class())
	res.SetAdd("f_steps", fmt.Sprint(steps))
	res.Ev("f_histories", 1)
	if hs.insideOldLen > 0 {
		res.Ev("f_histories_with_set_behind_end_inside_earlier_length", 1)
	}
}
