package c07

import (
	"errors"
	"fmt"
	"math/rand"
	"reflect"
	"regexp"
	"strings"
	"time"
	"unsafe"

	ucfg "github.com/elastic/go-ucfg"
)

// workload (d): Unpack into every kind of target

var (
	errRefused = errors.New("refused by callback")
	errInvalid = errors.New("invalid says callback")
)

type sA struct {
	A int `config:"a"`
}
type sV struct {
	V int `config:"v"`
}
type sAV struct {
	A sV  `config:"a"`
	V int `config:"v"`
}
type recN struct {
	Next *recN `config:"next"`
	V    int   `config:"v"`
}
type recM struct {
	Kids map[string]*recM `config:"next"`
	L    []recM           `config:"a"`
	V    interface{}      `config:"v"`
}
type nStr string
type nInt int
type nBool bool
type nFloat float64
type nSlice []int
type nMap map[string]interface{}
type nIface interface{}

type unexp struct {
	a int
	B int `config:"a"`
	c *sV
	d interface{}
}

// Inner is embedded (exported) below.
type Inner struct {
	X int `config:"x"`
	A int `config:"a"`
}
type inner struct {
	X int `config:"x"`
	A int `config:"a"`
}
type embVal struct{ Inner }
type embInline struct {
	Inner `config:",inline"`
}
type embPtrInline struct {
	*Inner `config:",inline"`
}
type embPtr struct{ *Inner }
type embUnexp struct{ inner }
type embUnexpInline struct {
	inner `config:",inline"`
}
type embIface struct {
	fmt.Stringer `config:"a"`
}

// callbacks returning errors (never panicking)
type errUnp struct{ X int }

func (e *errUnp) Unpack(interface{}) error { return errRefused }

type errUnpVal struct{ X int }

func (e errUnpVal) Unpack(interface{}) error { return errRefused }

type okUnp struct{ got interface{} }

func (o *okUnp) Unpack(v interface{}) error { o.got = v; return nil }

type strUnpErr string

func (s *strUnpErr) Unpack(string) error { return errRefused }

type intUnpErr int

func (s *intUnpErr) Unpack(int64) error { return errRefused }

type uintUnpErr uint

func (s *uintUnpErr) Unpack(uint64) error { return errRefused }

type boolUnpErr bool

func (s *boolUnpErr) Unpack(bool) error { return errRefused }

type floatUnpErr float64

func (s *floatUnpErr) Unpack(float64) error { return errRefused }

type cfgUnpErr struct{ n int }

func (c *cfgUnpErr) Unpack(*ucfg.Config) error { return errRefused }

type myCfg ucfg.Config

type rebrandUnp struct{ n int }

func (r *rebrandUnp) Unpack(c *myCfg) error { return errRefused }

type rebrandValUnp struct{ n int }

func (r *rebrandValUnp) Unpack(c myCfg) error { return nil }

type pather interface{ Path(string) string }

type ifaceArgUnp struct{ n int }

func (r *ifaceArgUnp) Unpack(c pather) error { return errRefused }

type oddUnp struct{ n int }

func (r *oddUnp) Unpack(a, b int) error { return nil }

type errVal struct {
	A int `config:"a"`
}

func (e errVal) Validate() error { return errInvalid }

type errValPtr struct {
	A int `config:"a"`
}

func (e *errValPtr) Validate() error { return errInvalid }

type nStrVal string

func (s nStrVal) Validate() error { return errInvalid }

type sliceVal []int

func (s sliceVal) Validate() error { return errInvalid }

type mapVal map[string]interface{}

func (s mapVal) Validate() error { return errInvalid }

type initDef struct {
	A int            `config:"a"`
	M map[string]int `config:"v"`
	P *sV            `config:"next"`
}

func (i *initDef) InitDefaults() {
	i.A = 5
	i.M = map[string]int{"x": 1}
	i.P = &sV{3}
}

type initDefMap map[string]interface{}

func (m initDefMap) InitDefaults() {
	if m != nil {
		m["d"] = 1
	}
}

type initDefStr string

func (s *initDefStr) InitDefaults() { *s = "default" }

type stringerT struct{ s string }

func (s stringerT) String() string { return s.s }

type target struct {
	label string // the row
	class string // the input class (first part of a panic signature): rows that differ only in where the same kind of value sits share a class
	mk    func() interface{}
}

// classOf groups table rows into input classes.
var classOf = map[string]string{
	"struct-inline-interface-holding-slice":        "inline-value-in-interface",
	"struct-inline-interface-holding-array":        "inline-value-in-interface",
	"struct-inline-interface-holding-map":          "inline-value-in-interface",
	"struct-inline-interface-holding-struct":       "inline-value-in-interface",
	"struct-inline-pointer-to-slice-set":           "inline-pointer-to-slice",
	"struct-inline-nil-pointer-to-slice":           "inline-pointer-to-slice",
	"map-of-pointer-to-pointer-to-slice":           "pointer-to-pointer-element",
	"map-of-pointer-to-pointer-to-int":             "pointer-to-pointer-element",
	"map-of-pointer-to-pointer-to-struct":          "pointer-to-pointer-element",
	"slice-of-pointer-to-pointer-to-int":           "pointer-to-pointer-element",
	"slice-of-pointer-to-pointer-to-slice":         "pointer-to-pointer-element",
	"prefilled-slice-of-pointer-to-slice":          "prefilled-pointer-element",
	"prefilled-map-of-pointer-to-slice":            "prefilled-pointer-element",
	"prefilled-slice-of-pointer-to-int":            "prefilled-pointer-element",
	"prefilled-map-of-pointer-to-int":              "prefilled-pointer-element",
	"prefilled-map-of-pointer-to-map":              "prefilled-pointer-element",
	"field-pointer-to-slice-set":                   "prefilled-pointer-to-container-field",
	"field-pointer-to-map-set":                     "prefilled-pointer-to-container-field",
	"field-pointer-to-array-set":                   "prefilled-pointer-to-container-field",
	"field-recursive-pointer-type":                 "recursive-pointer-type",
	"map-of-recursive-pointer-type":                "recursive-pointer-type",
	"recursive-pointer-type-prefilled":             "recursive-pointer-type",
	"recursive-map-slice-type-prefilled":           "recursive-map-slice-type",
	"field-rebranded-config-value-inline":          "field-config-value-inline",
	"named-interface":                              "unpack-into-nil-interface",
	"nonempty-interface-nil":                       "unpack-into-nil-interface",
	"pointer-to-error":                             "unpack-into-nil-interface",
	"pointer-to-pointer-to-interface-set":          "unpack-into-nil-interface",
	"typed-nil-struct-pointer":                     "nil-pointer-target",
	"typed-nil-map-pointer":                        "nil-pointer-target",
	"typed-nil-int-pointer":                        "nil-pointer-target",
	"nil-config-pointer":                           "nil-pointer-target",
	"pointer-to-nil-pointer-to-map":                "pointer-to-nil-map-pointer",
	"nil-typed-map-of-struct-by-value":             "nil-map-by-value",
	"prefilled-map-of-structs-by-value":            "prefilled-map-of-structs",
	"field-prefilled-map-of-structs":               "prefilled-map-of-structs",
	"field-prefilled-map-of-structs-inline":        "prefilled-map-of-structs",
	"interface-holding-int":                        "prefilled-value-in-interface",
	"interface-holding-string":                     "prefilled-value-in-interface",
	"interface-holding-map":                        "prefilled-value-in-interface",
	"interface-holding-nil-map":                    "prefilled-value-in-interface",
	"interface-holding-slice":                      "prefilled-value-in-interface",
	"interface-holding-struct":                     "prefilled-value-in-interface",
	"interface-holding-struct-pointer":             "prefilled-value-in-interface",
	"interface-holding-nil-struct-pointer":         "prefilled-value-in-interface",
	"field-interface-holding-int":                  "prefilled-value-in-interface",
	"field-interface-holding-struct":               "prefilled-value-in-interface",
	"field-interface-holding-struct-pointer":       "prefilled-value-in-interface",
	"field-interface-holding-nil-struct-pointer":   "prefilled-value-in-interface",
	"field-interface-holding-slice":                "prefilled-value-in-interface",
	"field-interface-holding-array":                "prefilled-value-in-interface",
	"field-interface-holding-map":                  "prefilled-value-in-interface",
	"field-interface-holding-map-of-structs":       "prefilled-value-in-interface",
	"field-interface-holding-chan":                 "prefilled-value-in-interface",
	"field-interface-holding-config":               "prefilled-value-in-interface",
	"field-nonempty-interface-holding-struct":      "prefilled-value-in-interface",
	"nonempty-interface-holding-struct":            "prefilled-value-in-interface",
	"prefilled-map-of-interfaces":                  "prefilled-value-in-interface",
	"prefilled-map-of-interface-struct-values":     "prefilled-value-in-interface",
	"prefilled-slice-of-interfaces":                "prefilled-value-in-interface",
	"array-of-interfaces-prefilled":                "prefilled-value-in-interface",
	"field-interface-holding-pointer-to-interface": "pointer-to-interface",
	"interface-holding-pointer-to-interface":       "pointer-to-interface",
	"field-pointer-to-interface":                   "pointer-to-interface",
	"field-pointer-to-pointer-to-interface":        "pointer-to-interface",
	"pointer-to-pointer-to-interface":              "pointer-to-interface",
	"slice-of-pointer-to-map":                      "pointer-to-map-element",
	"field-slice-of-pointer-to-map":                "pointer-to-map-element",
	"map-of-pointer-to-map":                        "pointer-to-map-element",
	"map-of-pointer-to-map-of-interface":           "pointer-to-map-element",
	"field-map-of-pointer-to-map":                  "pointer-to-map-element",
	"map-named-string-keys":                        "named-string-map-key",
	"map-of-arrays-wrong-length":                   "prefilled-map-of-arrays",
	"config-zero-value":                            "zero-value-config-target",
	"rebranded-config-zero-value":                  "zero-value-config-target",
}

func ptrTo(v interface{}) interface{} {
	p := reflect.New(reflect.TypeOf(v))
	p.Elem().Set(reflect.ValueOf(v))
	return p.Interface()
}

// tgt: pointer to a fresh zero value of the type of sample
func zeroPtr(sample interface{}) func() interface{} {
	t := reflect.TypeOf(sample)
	return func() interface{} { return reflect.New(t).Interface() }
}

var targetTable = func() []target {
	t := append(buildTargets(), validatorRows()...)
	for i := range t {
		if t[i].class == "" {
			t[i].class = t[i].label
		}
		if c, ok := classOf[t[i].label]; ok {
			t[i].class = c
		}
	}
	return t
}()

// validatorRows: every built-in validator on a field of every kind.
func validatorRows() []target {
	kinds := []struct {
		name string
		t    reflect.Type
	}{
		{"int", reflect.TypeOf(0)}, {"uint8", reflect.TypeOf(uint8(0))}, {"float64", reflect.TypeOf(0.5)}, {"string", reflect.TypeOf("")}, {"bool", reflect.TypeOf(true)},
		{"array", reflect.TypeOf([2]int{})}, {"empty-array", reflect.TypeOf([0]int{})}, {"slice", reflect.TypeOf([]int{})}, {"map", reflect.TypeOf(map[string]int{})},
		{"pointer-to-int", reflect.TypeOf((*int)(nil))}, {"pointer-to-array", reflect.TypeOf((*[2]int)(nil))}, {"struct", reflect.TypeOf(sV{})}, {"pointer-to-struct", reflect.TypeOf((*sV)(nil))},
		{"interface", reflect.TypeOf((*interface{})(nil)).Elem()}, {"chan", reflect.TypeOf((chan int)(nil))}, {"func", reflect.TypeOf((func())(nil))}, {"complex", reflect.TypeOf(complex128(0))},
		{"duration", reflect.TypeOf(time.Duration(0))}, {"regexp-pointer", reflect.TypeOf((*regexp.Regexp)(nil))}, {"regexp-value", reflect.TypeOf(regexp.Regexp{})},
		{"named-string", reflect.TypeOf(nStr(""))}, {"config-pointer", reflect.TypeOf((*ucfg.Config)(nil))}, {"array-of-structs", reflect.TypeOf([1]sV{})},
	}
	var out []target
	for _, v := range []string{"required", "nonzero", "positive", "min=1", "max=1"} {
		for _, k := range kinds {
			st := reflect.StructOf([]reflect.StructField{{Name: "A", Type: k.t, Tag: reflect.StructTag(fmt.Sprintf(`config:"a" validate:"%s"`, v))}})
			label := "validate-" + strings.SplitN(v, "=", 2)[0] + "-on-" + k.name
			class := "validator-tag-on-" + k.name
			if strings.Contains(k.name, "array") && !strings.HasPrefix(k.name, "pointer") {
				class = "validator-tag-on-array"
			}
			out = append(out, target{label: label, class: class, mk: func() interface{} { return reflect.New(st).Interface() }})
		}
	}
	return out
}

func buildTargets() []target {
	t := []target{
		// not a usable destination at all
		{label: "nil", mk: func() interface{} { return nil }},
		{label: "struct-by-value", mk: func() interface{} { return sA{} }},
		{label: "int-by-value", mk: func() interface{} { return 5 }},
		{label: "string-by-value", mk: func() interface{} { return "s" }},
		{label: "slice-by-value", mk: func() interface{} { return []int{1} }},
		{label: "func-by-value", mk: func() interface{} { return func() {} }},
		{label: "chan-by-value", mk: func() interface{} { return make(chan int) }},
		{label: "nil-map-by-value", mk: func() interface{} { var m map[string]interface{}; return m }},
		{label: "map-by-value", mk: func() interface{} { return map[string]interface{}{} }},
		{label: "nil-typed-map-of-struct-by-value", mk: func() interface{} { var m map[string]sV; return m }},
		{label: "typed-nil-struct-pointer", mk: func() interface{} { return (*sA)(nil) }},
		{label: "typed-nil-map-pointer", mk: func() interface{} { return (*map[string]interface{})(nil) }},
		{label: "typed-nil-int-pointer", mk: func() interface{} { return (*int)(nil) }},
		{label: "pointer-to-nil-pointer", mk: func() interface{} { var p *sA; return &p }},
		{label: "pointer-to-pointer-to-struct", mk: func() interface{} { p := &sA{}; return &p }},
		{label: "triple-pointer", mk: func() interface{} { var p **sA; return &p }},
		{label: "pointer-to-nil-pointer-to-map", mk: func() interface{} { var p *map[string]interface{}; return &p }},
		{label: "pointer-to-nil-pointer-to-slice", mk: func() interface{} { var p *[]interface{}; return &p }},
		{label: "pointer-to-int", mk: func() interface{} { return new(int) }},
		{label: "pointer-to-string", mk: func() interface{} { return new(string) }},
		{label: "pointer-to-bool", mk: func() interface{} { return new(bool) }},
		{label: "pointer-to-chan", mk: func() interface{} { return new(chan int) }},
		{label: "pointer-to-func", mk: func() interface{} { return new(func()) }},
		{label: "pointer-to-unsafe-pointer", mk: func() interface{} { return new(unsafe.Pointer) }},
		{label: "pointer-to-complex", mk: func() interface{} { return new(complex128) }},
		{label: "pointer-to-uintptr", mk: func() interface{} { return new(uintptr) }},
		{label: "pointer-to-error", mk: func() interface{} { return new(error) }},
		{label: "pointer-to-duration", mk: func() interface{} { return new(time.Duration) }},
		{label: "pointer-to-regexp", mk: func() interface{} { return new(regexp.Regexp) }},
		{label: "pointer-to-nil-regexp-pointer", mk: func() interface{} { return new(*regexp.Regexp) }},
		{label: "pointer-to-time", mk: func() interface{} { return new(time.Time) }},
		{label: "reflect-value", mk: func() interface{} { return reflect.ValueOf(&sA{}) }},
		{label: "pointer-to-reflect-value", mk: func() interface{} { v := reflect.ValueOf(&sA{}); return &v }},

		// interfaces
		{label: "unpack-into-nil-interface", mk: func() interface{} { var x interface{}; return &x }},
		{label: "interface-holding-int", mk: func() interface{} { var x interface{} = 1; return &x }},
		{label: "interface-holding-string", mk: func() interface{} { var x interface{} = "s"; return &x }},
		{label: "interface-holding-map", mk: func() interface{} { var x interface{} = map[string]interface{}{"a": 1}; return &x }},
		{label: "interface-holding-nil-map", mk: func() interface{} { var x interface{} = map[string]interface{}(nil); return &x }},
		{label: "interface-holding-slice", mk: func() interface{} { var x interface{} = []interface{}{1}; return &x }},
		{label: "interface-holding-struct", mk: func() interface{} { var x interface{} = sA{}; return &x }},
		{label: "interface-holding-struct-pointer", mk: func() interface{} { var x interface{} = &sA{}; return &x }},
		{label: "interface-holding-nil-struct-pointer", mk: func() interface{} { var x interface{} = (*sA)(nil); return &x }},
		{label: "interface-holding-pointer-to-interface", mk: func() interface{} { var y interface{}; var x interface{} = &y; return &x }},
		{label: "pointer-to-pointer-to-interface", mk: func() interface{} { var p *interface{}; return &p }},
		{label: "pointer-to-pointer-to-interface-set", mk: func() interface{} { var x interface{}; p := &x; return &p }},
		{label: "named-interface", mk: func() interface{} { var x nIface; return &x }},
		{label: "nonempty-interface-nil", mk: func() interface{} { var x fmt.Stringer; return &x }},
		{label: "nonempty-interface-holding-struct", mk: func() interface{} { var x fmt.Stringer = stringerT{"s"}; return &x }},

		// struct fields of unsupported kinds
		{label: "field-chan", mk: zeroPtr(struct {
			A chan int `config:"a"`
		}{})},
		{label: "field-func", mk: zeroPtr(struct {
			A func() `config:"a"`
		}{})},
		{label: "field-unsafe-pointer", mk: zeroPtr(struct {
			A unsafe.Pointer `config:"a"`
		}{})},
		{label: "field-complex", mk: zeroPtr(struct {
			A complex128 `config:"a"`
		}{})},
		{label: "field-pointer-to-complex", mk: zeroPtr(struct {
			A *complex128 `config:"a"`
		}{})},
		{label: "field-uintptr", mk: zeroPtr(struct {
			A uintptr `config:"a"`
		}{})},
		{label: "field-error", mk: zeroPtr(struct {
			A error `config:"a"`
		}{})},
		{label: "field-nonempty-interface-holding-struct", mk: func() interface{} {
			return &struct {
				A fmt.Stringer `config:"a"`
			}{stringerT{"x"}}
		}},
		{label: "field-time", mk: zeroPtr(struct {
			A time.Time `config:"a"`
		}{})},
		{label: "field-pointer-to-interface", mk: zeroPtr(struct {
			A *interface{} `config:"a"`
		}{})},
		{label: "field-pointer-to-pointer-to-interface", mk: zeroPtr(struct {
			A **interface{} `config:"a"`
		}{})},
		{label: "field-pointer-to-pointer-to-int", mk: zeroPtr(struct {
			A **int `config:"a"`
		}{})},
		{label: "field-pointer-to-pointer-to-struct", mk: zeroPtr(struct {
			A **sV `config:"a"`
		}{})},
		{label: "field-pointer-to-slice", mk: zeroPtr(struct {
			A *[]int `config:"a"`
		}{})},
		{label: "field-pointer-to-map", mk: zeroPtr(struct {
			A *map[string]int `config:"a"`
		}{})},
		{label: "field-pointer-to-pointer-to-map", mk: zeroPtr(struct {
			A **map[string]int `config:"a"`
		}{})},
		{label: "field-nil-pointer-to-array", mk: zeroPtr(struct {
			A *[3]int `config:"a"`
		}{})},
		{label: "field-pointer-to-array-set", mk: func() interface{} {
			return &struct {
				A *[3]int `config:"a"`
			}{&[3]int{7, 8, 9}}
		}},
		{label: "field-array-wrong-length", mk: zeroPtr(struct {
			A [2]int `config:"a"`
		}{})},
		{label: "field-array-right-length", mk: zeroPtr(struct {
			A [3]int `config:"a"`
		}{})},
		{label: "field-array-zero-length", mk: zeroPtr(struct {
			A [0]int `config:"a"`
		}{})},
		{label: "field-array-of-structs", mk: zeroPtr(struct {
			A [2]sV `config:"a"`
		}{})},
		{label: "field-slice-of-arrays", mk: zeroPtr(struct {
			A [][2]int `config:"a"`
		}{})},
		{label: "field-duration", mk: zeroPtr(struct {
			A time.Duration `config:"a"`
		}{})},
		{label: "field-regexp-pointer", mk: zeroPtr(struct {
			A *regexp.Regexp `config:"a"`
		}{})},
		{label: "field-regexp-value", mk: zeroPtr(struct {
			A regexp.Regexp `config:"a"`
		}{})},

		// interface typed fields holding typed values
		{label: "field-interface-holding-int", mk: func() interface{} {
			return &struct {
				A interface{} `config:"a"`
			}{5}
		}},
		{label: "field-interface-holding-struct", mk: func() interface{} {
			return &struct {
				A interface{} `config:"a"`
			}{sV{1}}
		}},
		{label: "field-interface-holding-struct-pointer", mk: func() interface{} {
			return &struct {
				A interface{} `config:"a"`
			}{&sV{1}}
		}},
		{label: "field-interface-holding-nil-struct-pointer", mk: func() interface{} {
			return &struct {
				A interface{} `config:"a"`
			}{(*sV)(nil)}
		}},
		{label: "field-interface-holding-slice", mk: func() interface{} {
			return &struct {
				A interface{} `config:"a"`
			}{[]int{1, 2}}
		}},
		{label: "field-interface-holding-array", mk: func() interface{} {
			return &struct {
				A interface{} `config:"a"`
			}{[3]int{1, 2, 3}}
		}},
		{label: "field-interface-holding-map", mk: func() interface{} {
			return &struct {
				A interface{} `config:"a"`
			}{map[string]int{"v": 1}}
		}},
		{label: "field-interface-holding-map-of-structs", mk: func() interface{} {
			return &struct {
				A interface{} `config:"a"`
			}{map[string]sV{"a": {1}, "v": {2}}}
		}},
		{label: "field-interface-holding-chan", mk: func() interface{} {
			return &struct {
				A interface{} `config:"a"`
			}{make(chan int)}
		}},
		{label: "field-interface-holding-pointer-to-interface", mk: func() interface{} {
			var y interface{} = 3
			return &struct {
				A interface{} `config:"a"`
			}{&y}
		}},
		{label: "field-interface-holding-config", mk: func() interface{} {
			return &struct {
				A interface{} `config:"a"`
			}{ucfg.New()}
		}},

		// maps
		{label: "map-int-keys", mk: func() interface{} { return &map[int]interface{}{} }},
		{label: "map-interface-keys", mk: func() interface{} { return &map[interface{}]interface{}{} }},
		{label: "map-bool-keys-by-value", mk: func() interface{} { return map[bool]string{} }},
		{label: "map-named-string-keys", mk: func() interface{} { return &map[nStr]int{} }},
		{label: "field-map-int-keys", mk: zeroPtr(struct {
			A map[int]sV `config:"a"`
		}{})},
		{label: "field-map-interface-keys", mk: zeroPtr(struct {
			A map[interface{}]int `config:"a"`
		}{})},
		{label: "map-of-int", mk: func() interface{} { return &map[string]int{} }},
		{label: "map-of-chan", mk: func() interface{} { return &map[string]chan int{} }},
		{label: "prefilled-map-of-structs", mk: func() interface{} { return &map[string]sV{"a": {1}, "v": {2}} }},
		{label: "prefilled-map-of-structs-by-value", mk: func() interface{} { return map[string]sAV{"a": {sV{1}, 2}} }},
		{label: "prefilled-map-of-struct-pointers", mk: func() interface{} { return &map[string]*sV{"a": {1}, "v": nil} }},
		{label: "prefilled-map-of-slices", mk: func() interface{} { return &map[string][]int{"a": {1, 2, 3, 4, 5}, "v": nil} }},
		{label: "prefilled-map-of-arrays", mk: func() interface{} { return &map[string][3]int{"a": {1, 2, 3}} }},
		{label: "map-of-arrays", mk: func() interface{} { return &map[string][3]int{} }},
		{label: "map-of-arrays-wrong-length", mk: func() interface{} { return &map[string][2]int{"a": {1, 2}} }},
		{label: "prefilled-map-of-maps", mk: func() interface{} { return &map[string]map[string]int{"a": {"v": 1}, "v": nil} }},
		{label: "prefilled-map-of-interfaces", mk: func() interface{} {
			return &map[string]interface{}{"a": sV{1}, "v": &sV{2}, "next": []int{1}, "x": map[string]sV{"a": {1}}}
		}},
		{label: "prefilled-map-of-interface-struct-values", mk: func() interface{} { return &map[string]interface{}{"a": sAV{sV{1}, 2}} }},
		{label: "prefilled-map-of-ints", mk: func() interface{} { return &map[string]int{"a": 1} }},
		{label: "prefilled-map-of-named-strings", mk: func() interface{} { return &map[string]nStr{"a": "x"} }},
		{label: "field-prefilled-map-of-structs", mk: func() interface{} {
			return &struct {
				A map[string]sV `config:"a"`
			}{map[string]sV{"a": {1}, "v": {2}, "k": {3}}}
		}},
		{label: "field-prefilled-map-of-structs-inline", mk: func() interface{} {
			return &struct {
				A map[string]sV `config:",inline"`
			}{map[string]sV{"a": {1}, "v": {2}}}
		}},
		{label: "map-of-pointer-to-map", mk: func() interface{} { return &map[string]*map[string]int{} }},
		{label: "map-of-pointer-to-map-of-interface", mk: func() interface{} { return &map[string]*map[string]interface{}{} }},
		{label: "slice-of-pointer-to-map", mk: func() interface{} { return &[]*map[string]int{} }},
		{label: "field-slice-of-pointer-to-map", mk: zeroPtr(struct {
			A []*map[string]interface{} `config:"a"`
		}{})},
		{label: "field-map-of-pointer-to-map", mk: zeroPtr(struct {
			A map[string]*map[string]interface{} `config:"a"`
		}{})},
		{label: "map-of-pointer-to-slice", mk: func() interface{} { return &map[string]*[]int{} }},
		{label: "slice-of-pointer-to-slice", mk: func() interface{} { return &[]*[]int{} }},
		{label: "slice-of-pointer-to-array", mk: func() interface{} { return &[]*[3]int{} }},
		{label: "map-of-pointer-to-pointer-to-struct", mk: func() interface{} { return &map[string]**sV{} }},
		{label: "map-of-pointer-to-pointer-to-slice", mk: func() interface{} { return &map[string]**[]int{} }},
		{label: "map-of-pointer-to-pointer-to-int", mk: func() interface{} { return &map[string]**int{} }},
		{label: "slice-of-pointer-to-pointer-to-int", mk: func() interface{} { return &[]**int{} }},
		{label: "slice-of-pointer-to-pointer-to-slice", mk: func() interface{} { return &[]**[]int{} }},
		{label: "prefilled-slice-of-pointer-to-slice", mk: func() interface{} { return &[]*[]int{{1, 2}, nil, {3}} }},
		{label: "prefilled-map-of-pointer-to-slice", mk: func() interface{} { return &map[string]*[]int{"a": {1, 2}, "v": nil} }},
		{label: "prefilled-slice-of-pointer-to-int", mk: func() interface{} { return &[]*int{new(int), nil, new(int)} }},
		{label: "prefilled-map-of-pointer-to-int", mk: func() interface{} { return &map[string]*int{"a": new(int), "v": nil} }},
		{label: "prefilled-map-of-pointer-to-map", mk: func() interface{} { return &map[string]*map[string]int{"a": {"v": 1}, "v": nil} }},
		{label: "field-pointer-to-slice-set", mk: func() interface{} {
			return &struct {
				A *[]int `config:"a"`
			}{&[]int{1, 2}}
		}},
		{label: "field-pointer-to-map-set", mk: func() interface{} {
			return &struct {
				A *map[string]int `config:"a"`
			}{&map[string]int{"v": 1}}
		}},
		{label: "field-pointer-to-pointer-to-struct-set", mk: func() interface{} {
			p := &sV{1}
			return &struct {
				A **sV `config:"a"`
			}{&p}
		}},

		// slices and arrays
		{label: "slice-of-interface", mk: func() interface{} { return &[]interface{}{} }},
		{label: "prefilled-slice-longer", mk: func() interface{} { return &[]int{1, 2, 3, 4, 5} }},
		{label: "prefilled-slice-shorter", mk: func() interface{} { return &[]int{1} }},
		{label: "prefilled-slice-of-structs", mk: func() interface{} { return &[]sV{{1}, {2}, {3}, {4}} }},
		{label: "prefilled-slice-of-struct-pointers", mk: func() interface{} { return &[]*sV{{1}, nil, {3}, nil} }},
		{label: "prefilled-slice-of-interfaces", mk: func() interface{} {
			return &[]interface{}{sV{1}, &sV{2}, 3, []int{4}, map[string]sV{"a": {1}}, nil}
		}},
		{label: "prefilled-slice-of-maps", mk: func() interface{} { return &[]map[string]sV{{"a": {1}}, nil} }},
		{label: "array-wrong-length", mk: func() interface{} { return &[2]int{} }},
		{label: "array-right-length", mk: func() interface{} { return &[3]int{} }},
		{label: "array-longer", mk: func() interface{} { return &[5]interface{}{} }},
		{label: "array-zero-length", mk: func() interface{} { return &[0]int{} }},
		{label: "nil-pointer-to-array", mk: func() interface{} { var p *[3]int; return &p }},
		{label: "array-of-interfaces-prefilled", mk: func() interface{} { return &[3]interface{}{sV{1}, &sV{2}, 3} }},
		{label: "slice-of-slices", mk: func() interface{} { return &[][]int{} }},
		{label: "slice-of-chan", mk: func() interface{} { return &[]chan int{} }},
		{label: "field-prefilled-slice-append-tag", mk: func() interface{} {
			return &struct {
				A []int `config:"a,append"`
			}{[]int{1, 2}}
		}},
		{label: "field-prefilled-slice-prepend-tag", mk: func() interface{} {
			return &struct {
				A []interface{} `config:"a,prepend"`
			}{[]interface{}{sV{1}}}
		}},
		{label: "field-prefilled-slice-replace-tag", mk: func() interface{} {
			return &struct {
				A []sV `config:"a,replace"`
			}{[]sV{{1}, {2}, {3}, {4}}}
		}},
		{label: "field-prefilled-array-append-tag", mk: func() interface{} {
			return &struct {
				A [3]int `config:"a,append"`
			}{[3]int{1, 2, 3}}
		}},

		// structs
		{label: "struct-unexported-fields", mk: func() interface{} { return &unexp{} }},
		{label: "struct-embedded-value", mk: func() interface{} { return &embVal{} }},
		{label: "struct-embedded-inline", mk: func() interface{} { return &embInline{} }},
		{label: "struct-embedded-nil-pointer-inline", mk: func() interface{} { return &embPtrInline{} }},
		{label: "struct-embedded-pointer-inline", mk: func() interface{} { return &embPtrInline{&Inner{}} }},
		{label: "struct-embedded-nil-pointer", mk: func() interface{} { return &embPtr{} }},
		{label: "struct-embedded-unexported", mk: func() interface{} { return &embUnexp{} }},
		{label: "struct-embedded-unexported-inline", mk: func() interface{} { return &embUnexpInline{} }},
		{label: "struct-embedded-interface", mk: func() interface{} { return &embIface{} }},
		{label: "struct-nested", mk: func() interface{} { return &sAV{} }},
		{label: "struct-empty", mk: func() interface{} { return &struct{}{} }},
		{label: "struct-inline-int", mk: zeroPtr(struct {
			A int `config:",inline"`
		}{})},
		{label: "struct-inline-interface", mk: zeroPtr(struct {
			A interface{} `config:",inline"`
		}{})},
		{label: "struct-inline-nil-map", mk: zeroPtr(struct {
			A map[string]interface{} `config:",inline"`
		}{})},
		{label: "struct-inline-map-int-keys", mk: zeroPtr(struct {
			A map[int]interface{} `config:",inline"`
		}{})},
		{label: "struct-inline-slice", mk: zeroPtr(struct {
			A []interface{} `config:",inline"`
		}{})},
		{label: "struct-inline-pointer-to-slice-set", mk: func() interface{} {
			return &struct {
				A *[]int `config:",inline"`
			}{&[]int{9, 9, 9, 9}}
		}},
		{label: "struct-inline-nil-pointer-to-slice", mk: zeroPtr(struct {
			A *[]int `config:",inline"`
		}{})},
		{label: "struct-inline-interface-holding-slice", mk: func() interface{} {
			return &struct {
				A interface{} `config:",inline"`
			}{[]int{9}}
		}},
		{label: "struct-inline-interface-holding-array", mk: func() interface{} {
			return &struct {
				A interface{} `config:",inline"`
			}{[3]int{9, 9, 9}}
		}},
		{label: "struct-inline-interface-holding-map", mk: func() interface{} {
			return &struct {
				A interface{} `config:",inline"`
			}{map[string]interface{}{"v": 1}}
		}},
		{label: "struct-inline-interface-holding-struct", mk: func() interface{} {
			return &struct {
				A interface{} `config:",inline"`
			}{sV{1}}
		}},
		{label: "struct-inline-array", mk: zeroPtr(struct {
			A [2]int `config:",inline"`
		}{})},
		{label: "struct-inline-nil-struct-pointer", mk: zeroPtr(struct {
			A *sV `config:",inline"`
		}{})},
		{label: "struct-inline-chan", mk: zeroPtr(struct {
			A chan int `config:",inline"`
		}{})},
		{label: "struct-ignore-tag", mk: zeroPtr(struct {
			A chan int `config:",ignore"`
			V int      `config:"v"`
		}{})},
		{label: "struct-duplicate-field-names", mk: zeroPtr(struct {
			A int    `config:"a"`
			B string `config:"a"`
			C []int  `config:"a"`
		}{})},
		{label: "struct-dotted-tag", mk: zeroPtr(struct {
			A int `config:"a.v"`
			B int `config:"a.0"`
			C int `config:"a..x"`
			D int `config:"."`
		}{})},
		{label: "struct-numeric-tags", mk: zeroPtr(struct {
			A interface{} `config:"0"`
			B interface{} `config:"-1"`
			C interface{} `config:"1025"`
			D interface{} `config:"9223372036854775807"`
		}{})},
		{label: "struct-validate-bad-param", mk: zeroPtr(struct {
			A int `config:"a" validate:"min=abc"`
		}{})},
		{label: "struct-validate-unknown", mk: zeroPtr(struct {
			A int `config:"a" validate:"nosuchvalidator"`
		}{})},
		{label: "struct-validate-min-no-param", mk: zeroPtr(struct {
			A int `config:"a" validate:"min"`
		}{})},
		{label: "struct-validate-min-on-struct", mk: zeroPtr(struct {
			A sV `config:"a" validate:"min=1, max=2, positive, nonzero, required"`
		}{})},
		{label: "struct-validate-on-chan", mk: zeroPtr(struct {
			A chan int `config:"a" validate:"min=1, positive, nonzero, required"`
		}{})},
		{label: "struct-validate-on-interface", mk: zeroPtr(struct {
			A interface{} `config:"a" validate:"min=1, max=1, positive, nonzero, required"`
		}{})},
		{label: "struct-validate-on-pointers", mk: zeroPtr(struct {
			A *int            `config:"a" validate:"min=1, positive, nonzero, required"`
			V *[]int          `config:"v" validate:"nonzero, required"`
			N *map[string]int `config:"next" validate:"nonzero, required"`
		}{})},
		{label: "struct-validate-duration-param", mk: zeroPtr(struct {
			A time.Duration `config:"a" validate:"min=1x, max=-"`
		}{})},
		{label: "struct-validate-odd-syntax", mk: zeroPtr(struct {
			A int `config:"a" validate:",,=,min==1,=5"`
		}{})},

		// recursive types
		{label: "recursive-pointer-type", mk: func() interface{} { return &recN{} }},
		{label: "field-recursive-pointer-type", mk: zeroPtr(struct {
			A recN `config:"a"`
		}{})},
		{label: "map-of-recursive-pointer-type", mk: func() interface{} { return &map[string]*recN{} }},
		{label: "recursive-pointer-type-prefilled", mk: func() interface{} { return &recN{Next: &recN{Next: &recN{V: 3}, V: 2}, V: 1} }},
		{label: "recursive-map-slice-type", mk: func() interface{} { return &recM{} }},
		{label: "recursive-map-slice-type-prefilled", mk: func() interface{} {
			return &recM{Kids: map[string]*recM{"next": {V: sV{1}}, "v": nil}, L: []recM{{V: 1}}, V: &recM{}}
		}},

		// named primitives
		{label: "named-string", mk: func() interface{} { return new(nStr) }},
		{label: "field-named-string", mk: zeroPtr(struct {
			A nStr `config:"a"`
		}{})},
		{label: "field-pointer-to-named-string", mk: zeroPtr(struct {
			A *nStr `config:"a"`
		}{})},
		{label: "map-of-named-strings", mk: func() interface{} { return &map[string]nStr{} }},
		{label: "slice-of-named-strings", mk: func() interface{} { return &[]nStr{} }},
		{label: "field-named-int", mk: zeroPtr(struct {
			A nInt `config:"a"`
		}{})},
		{label: "map-of-named-ints", mk: func() interface{} { return &map[string]nInt{} }},
		{label: "slice-of-named-bools", mk: func() interface{} { return &[]nBool{} }},
		{label: "map-of-named-floats", mk: func() interface{} { return &map[string]*nFloat{} }},
		{label: "named-slice", mk: func() interface{} { return &nSlice{} }},
		{label: "named-map", mk: func() interface{} { return &nMap{} }},
		{label: "field-named-map-and-slice", mk: zeroPtr(struct {
			A nMap   `config:"a"`
			V nSlice `config:"v"`
		}{})},

		// callbacks returning errors
		{label: "unpacker-error", mk: func() interface{} { return &errUnp{} }},
		{label: "field-unpacker-error", mk: zeroPtr(struct {
			A errUnp `config:"a"`
		}{})},
		{label: "field-unpacker-error-pointer", mk: zeroPtr(struct {
			A *errUnp `config:"a"`
		}{})},
		{label: "field-unpacker-value-receiver", mk: zeroPtr(struct {
			A errUnpVal `config:"a"`
		}{})},
		{label: "map-of-unpackers", mk: func() interface{} { return &map[string]errUnp{"a": {1}} }},
		{label: "map-of-unpacker-pointers", mk: func() interface{} { return &map[string]*errUnp{"a": {1}} }},
		{label: "slice-of-unpackers", mk: func() interface{} { return &[]errUnp{} }},
		{label: "slice-of-ok-unpackers", mk: func() interface{} { return &[]okUnp{} }},
		{label: "interface-holding-unpacker", mk: func() interface{} { var x interface{} = &okUnp{}; return &x }},
		{label: "field-primitive-unpackers", mk: zeroPtr(struct {
			A strUnpErr   `config:"a"`
			B intUnpErr   `config:"a"`
			C uintUnpErr  `config:"a"`
			D boolUnpErr  `config:"a"`
			E floatUnpErr `config:"a"`
		}{})},
		{label: "field-string-unpacker", mk: zeroPtr(struct {
			A *strUnpErr `config:"a"`
		}{})},
		{label: "field-int-unpacker", mk: zeroPtr(struct {
			A intUnpErr `config:"a"`
		}{})},
		{label: "field-config-unpacker", mk: zeroPtr(struct {
			A cfgUnpErr `config:"a"`
		}{})},
		{label: "config-unpacker", mk: func() interface{} { return &cfgUnpErr{} }},
		{label: "rebranded-config-unpacker", mk: func() interface{} { return &rebrandUnp{} }},
		{label: "field-rebranded-config-unpacker", mk: zeroPtr(struct {
			A rebrandUnp     `config:"a"`
			V *rebrandValUnp `config:"v"`
		}{})},
		{label: "field-interface-argument-unpacker", mk: zeroPtr(struct {
			A ifaceArgUnp `config:"a"`
		}{})},
		{label: "field-odd-unpack-method", mk: zeroPtr(struct {
			A oddUnp `config:"a"`
		}{})},
		{label: "validator-error", mk: func() interface{} { return &errVal{} }},
		{label: "validator-pointer-receiver-error", mk: func() interface{} { return &errValPtr{} }},
		{label: "field-validators", mk: zeroPtr(struct {
			A errVal     `config:"a"`
			V *errValPtr `config:"v"`
		}{})},
		{label: "map-of-validators", mk: func() interface{} { return &map[string]errValPtr{} }},
		{label: "slice-of-validators", mk: func() interface{} { return &[]nStrVal{} }},
		{label: "validating-slice-and-map", mk: zeroPtr(struct {
			A sliceVal `config:"a"`
			V mapVal   `config:"v"`
		}{})},
		{label: "validating-map-top-level", mk: func() interface{} { return &mapVal{} }},
		{label: "init-defaults", mk: func() interface{} { return &initDef{} }},
		{label: "field-init-defaults", mk: zeroPtr(struct {
			A initDef     `config:"a"`
			V *initDef    `config:"v"`
			N initDefStr  `config:"next"`
			X *initDefStr `config:"x"`
		}{})},
		{label: "init-defaults-map", mk: func() interface{} { return &initDefMap{} }},
		{label: "map-of-init-defaults", mk: func() interface{} { return &map[string]initDef{} }},

		// Config targets
		{label: "config-pointer", mk: func() interface{} { return ucfg.New() }},
		{label: "nil-config-pointer", mk: func() interface{} { return (*ucfg.Config)(nil) }},
		{label: "pointer-to-nil-config-pointer", mk: func() interface{} { var c *ucfg.Config; return &c }},
		{label: "config-zero-value", mk: func() interface{} { return &ucfg.Config{} }},
		{label: "rebranded-config", mk: func() interface{} { return (*myCfg)(ucfg.New()) }},
		{label: "rebranded-config-zero-value", mk: func() interface{} { return &myCfg{} }},
		{label: "field-config-pointer", mk: zeroPtr(struct {
			A *ucfg.Config `config:"a"`
		}{})},
		{label: "field-config-pointer-set", mk: func() interface{} {
			return &struct {
				A *ucfg.Config `config:"a"`
			}{ucfg.MustNewFrom(map[string]interface{}{"v": []int{1}})}
		}},
		{label: "field-config-value", mk: zeroPtr(struct {
			A ucfg.Config `config:"a"`
		}{})},
		{label: "field-rebranded-config", mk: zeroPtr(struct {
			A *myCfg `config:"a"`
			V myCfg  `config:"v"`
		}{})},
		{label: "field-config-value-inline", mk: zeroPtr(struct {
			A ucfg.Config `config:",inline"`
		}{})},
		{label: "field-rebranded-config-value-inline", mk: zeroPtr(struct {
			A myCfg `config:",inline"`
		}{})},
		{label: "field-config-inline", mk: zeroPtr(struct {
			A *ucfg.Config `config:",inline"`
		}{})},
		{label: "field-config-inline-set", mk: func() interface{} {
			return &struct {
				A *ucfg.Config `config:",inline"`
			}{ucfg.New()}
		}},
		{label: "map-of-configs", mk: func() interface{} { return &map[string]*ucfg.Config{} }},
		{label: "map-of-config-values", mk: func() interface{} { return &map[string]ucfg.Config{} }},
		{label: "slice-of-configs", mk: func() interface{} { return &[]*ucfg.Config{} }},
		{label: "slice-of-configs-prefilled", mk: func() interface{} { return &[]*ucfg.Config{ucfg.New(), nil, {}} }},
		{label: "pointer-to-pointer-to-config-field", mk: zeroPtr(struct {
			A **ucfg.Config `config:"a"`
		}{})},
	}
	return t
}

type fixture struct {
	name   string
	varexp bool
	build  func() interface{}
}

func nestNext(depth int, leaf interface{}) interface{} {
	v := leaf
	for i := 0; i < depth; i++ {
		v = mp{"next": v, "v": i}
	}
	return v
}

var fixtures = []fixture{
	{"empty", false, func() interface{} { return mp{} }},
	{"a-int", false, func() interface{} { return mp{"a": 1} }},
	{"a-negative", false, func() interface{} { return mp{"a": -1, "v": 1.5} }},
	{"a-string", false, func() interface{} { return mp{"a": "s", "v": "1h"} }},
	{"a-bool", false, func() interface{} { return mp{"a": true} }},
	{"a-nil", false, func() interface{} { return mp{"a": nil, "v": nil, "next": nil} }},
	{"a-object", false, func() interface{} {
		return mp{"a": mp{"v": 1, "a": 2, "x": 3, "next": mp{"v": 1}}, "v": mp{"v": 2}}
	}},
	{"a-object-of-objects", false, func() interface{} {
		return mp{"a": mp{"a": mp{"v": 1}, "v": mp{"v": "s"}, "k": mp{"a": mp{"v": 1}}}}
	}},
	{"a-list", false, func() interface{} { return mp{"a": li{1, 2, 3}, "v": li{}} }},
	{"a-list-of-objects", false, func() interface{} { return mp{"a": li{mp{"v": 1}, mp{"a": li{1}}, nil}, "v": 7} }},
	{"a-list-of-lists", false, func() interface{} { return mp{"a": li{li{1, 2}, li{3}, li{}}} }},
	{"a-empty-object", false, func() interface{} { return mp{"a": mp{}, "v": li{}} }},
	{"top-level-list", false, func() interface{} { return li{1, 2, 3} }},
	{"top-level-list-mixed", false, func() interface{} { return li{mp{"a": 1, "v": 2}, nil, "s"} }},
	{"deep", false, func() interface{} {
		return mp{"a": mp{"a": mp{"a": mp{"a": 1}}}, "x": 1, "next": mp{"next": mp{"v": "notint"}}, "v": 3}
	}},
	{"mixed-dict-and-list", false, func() interface{} { return mp{"a": mp{"0": 1, "1": 2, "v": 3}, "0": mp{"v": 1}} }},
	{"references", true, func() interface{} {
		return mp{"a": "${v}", "v": mp{"v": 5, "a": "${x}"}, "x": li{1, 2, 3}, "next": "${v.v}"}
	}},
	{"references-cyclic", true, func() interface{} { return mp{"a": "${a}", "v": "${next}", "next": "${v}", "x": mp{"x": "${x}"}} }},
	{"references-to-ancestors", true, func() interface{} {
		return mp{"a": mp{"next": "${a}", "v": 1}, "next": "${x}", "x": mp{"next": "${x}", "a": li{"${x}"}}, "v": mp{"next": mp{"next": "${v}"}}}
	}},
	{"references-unresolvable", true, func() interface{} { return mp{"a": "${nope}", "v": li{"${nope}"}, "next": mp{"v": "${nope:?no}"}} }},
	{"big-numbers", false, func() interface{} {
		return mp{"a": uint64(1) << 63, "v": -1 << 63, "next": 1e300, "x": "99999999999999999999"}
	}},
}

type dOpt struct {
	name string
	opts []ucfg.Option
}

var dOpts = []dOpt{
	{"none", nil},
	{"PathSep", []ucfg.Option{ucfg.PathSep(".")}},
	{"AppendValues", []ucfg.Option{ucfg.AppendValues}},
	{"ReplaceValues+PathSep", []ucfg.Option{ucfg.ReplaceValues, ucfg.PathSep(".")}},
}

const targetChunk = 150

func targetTableCalls() int { return len(targetTable) * len(fixtures) * len(dOpts) }

func runTargetsTable(m *mon, r *rand.Rand, seed int64, tier string, k int) {
	total := targetTableCalls()
	for j := k * targetChunk; j < (k+1)*targetChunk && j < total; j++ {
		o := dOpts[j%len(dOpts)]
		f := fixtures[(j/len(dOpts))%len(fixtures)]
		t := targetTable[j/(len(dOpts)*len(fixtures))]
		unpackInto(m, t.class, t.label, t.mk, f, o)
	}
	m.res.Ev("d_table_chunks", 1)
}

func unpackInto(m *mon, class, label string, mk func() interface{}, f fixture, o dOpt) {
	res := m.res
	opts := append([]ucfg.Option{}, o.opts...)
	if f.varexp {
		opts = append(opts, ucfg.VarExp)
	}
	var c *ucfg.Config
	m.do(call{entry: "NewFrom", desc: func() string { return fmt.Sprintf("%v options %s", f.build(), o.name) }}, func() {
		c, _ = ucfg.NewFrom(f.build(), opts...)
	})
	if c == nil {
		res.Ev("d_fixture_not_buildable", 1)
		return
	}
	res.Key("D|" + label + "|" + f.name + "|" + o.name)
	res.SetAdd("input_class", "target:"+class)
	res.SetAdd("target_row", label)
	res.SetAdd("config_fixture", f.name)
	res.SetAdd("entry_point", "Unpack")
	to := mk()
	d := func() string {
		return fmt.Sprintf("target %s (%s) <- config %s = %v, options %s", label, describeTarget(mk), f.name, f.build(), o.name)
	}
	var err error
	st := m.do(call{entry: "Unpack", class: class, desc: d}, func() { err = c.Unpack(to, opts...) })
	switch {
	case st != stOK:
	case err != nil:
		res.Ev("d_unpack_errors", 1)
	default:
		res.Ev("d_unpack_ok", 1)
	}
}

func describeTarget(mk func() interface{}) (s string) {
	defer func() {
		if recover() != nil {
			s = "?"
		}
	}()
	v := mk()
	s = fmt.Sprintf("%T", v)
	if len(s) > 200 {
		s = s[:200] + "..."
	}
	return s
}

// recursive pointer types with configs of depth 1..50
func runTargetsRecursive(m *mon, r *rand.Rand, seed int64, tier string, k int) {
	chain := func(n int) *recN {
		if n < 1 {
			n = 1
		}
		var p *recN
		for i := 0; i < n; i++ {
			p = &recN{Next: p, V: i}
		}
		return p
	}
	for depth := 1 + k; depth <= 50; depth += 4 {
		depth := depth
		for _, leaf := range []interface{}{mp{"v": 1}, nil, "prim", li{mp{"v": 1}}} {
			leaf := leaf
			f := fixture{fmt.Sprintf("next-chain-depth-%d-leaf-%T", depth, leaf), false, func() interface{} { return nestNext(depth, leaf) }}
			for _, o := range dOpts[:2] {
				unpackInto(m, "recursive-pointer-type", "recursive-pointer-type", func() interface{} { return &recN{} }, f, o)
				unpackInto(m, "recursive-pointer-type-prefilled-shorter", "recursive-pointer-type-prefilled-shorter", func() interface{} { return chain(depth / 2) }, f, o)
				unpackInto(m, "recursive-pointer-type-prefilled-longer", "recursive-pointer-type-prefilled-longer", func() interface{} { return chain(depth + 3) }, f, o)
				unpackInto(m, "pointer-to-nil-recursive-pointer", "pointer-to-nil-recursive-pointer", func() interface{} { var p *recN; return &p }, f, o)
				unpackInto(m, "recursive-map-slice-type", "recursive-map-slice-type", func() interface{} { return &recM{} }, f, o)
				unpackInto(m, "map-of-recursive-pointers", "map-of-recursive-pointers", func() interface{} { return &map[string]*recN{"next": chain(2)} }, f, o)
			}
		}
	}
	m.res.Ev("d_recursive_depth_sweeps", 1)
}

// ---------------------------------------------------------------------------
// random target types

var leafTypes = []reflect.Type{
	reflect.TypeOf(0), reflect.TypeOf(int8(0)), reflect.TypeOf(uint16(0)), reflect.TypeOf(float32(0)), reflect.TypeOf(""), reflect.TypeOf(true),
	reflect.TypeOf((*interface{})(nil)).Elem(), reflect.TypeOf(nStr("")), reflect.TypeOf(nInt(0)), reflect.TypeOf(sV{}), reflect.TypeOf(sAV{}),
	reflect.TypeOf(recN{}), reflect.TypeOf(time.Duration(0)), reflect.TypeOf(ucfg.Config{}), reflect.TypeOf(regexp.Regexp{}),
	reflect.TypeOf(errUnp{}), reflect.TypeOf(okUnp{}), reflect.TypeOf(errVal{}), reflect.TypeOf(errValPtr{}), reflect.TypeOf(initDef{}), reflect.TypeOf(strUnpErr("")),
	reflect.TypeOf((chan int)(nil)), reflect.TypeOf((func())(nil)), reflect.TypeOf(complex128(0)), reflect.TypeOf(uintptr(0)), reflect.TypeOf(unsafe.Pointer(nil)),
	reflect.TypeOf((*error)(nil)).Elem(), reflect.TypeOf((*fmt.Stringer)(nil)).Elem(), reflect.TypeOf(nMap{}), reflect.TypeOf(nSlice{}), reflect.TypeOf(myCfg{}),
}

var fieldKeys = []string{"a", "v", "next", "x"}

func randType(r *rand.Rand, depth int) reflect.Type {
	if depth <= 0 || r.Intn(3) == 0 {
		if r.Intn(3) == 0 {
			return leafTypes[r.Intn(7)] // plain kinds are the common case
		}
		return leafTypes[r.Intn(len(leafTypes))]
	}
	switch r.Intn(9) {
	case 0, 1:
		return reflect.PtrTo(randType(r, depth-1))
	case 2, 3:
		return reflect.SliceOf(randType(r, depth-1))
	case 4:
		return reflect.ArrayOf(r.Intn(4), randType(r, depth-1))
	case 5, 6:
		key := reflect.TypeOf("")
		switch r.Intn(8) {
		case 0:
			key = reflect.TypeOf(0)
		case 1:
			key = reflect.TypeOf((*interface{})(nil)).Elem()
		case 2:
			key = reflect.TypeOf(nStr(""))
		}
		return reflect.MapOf(key, randType(r, depth-1))
	default:
		n := 1 + r.Intn(3)
		var fs []reflect.StructField
		for i := 0; i < n; i++ {
			tag := fieldKeys[r.Intn(len(fieldKeys))]
			switch r.Intn(12) {
			case 0:
				tag = ",inline"
			case 1:
				tag += ",append"
			case 2:
				tag += ",prepend"
			case 3:
				tag += ",replace"
			}
			st := reflect.StructTag(fmt.Sprintf(`config:"%s"`, tag))
			if r.Intn(6) == 0 {
				st = reflect.StructTag(fmt.Sprintf(`config:"%s" validate:"%s"`, tag, []string{"required", "nonzero", "positive", "min=1", "max=2", "min=1s"}[r.Intn(6)]))
			}
			fs = append(fs, reflect.StructField{Name: fmt.Sprintf("F%d", i), Type: randType(r, depth-1), Tag: st})
		}
		return reflect.StructOf(fs)
	}
}

var ifaceFills = []func() interface{}{
	func() interface{} { return 5 },
	func() interface{} { return "s" },
	func() interface{} { return sV{1} },
	func() interface{} { return &sV{2} },
	func() interface{} { return (*sV)(nil) },
	func() interface{} { return []int{1, 2} },
	func() interface{} { return []interface{}{sV{1}, nil} },
	func() interface{} { return map[string]interface{}{"a": 1, "v": sV{1}} },
	func() interface{} { return map[string]sV{"a": {1}, "v": {2}} },
	func() interface{} { return [2]int{1, 2} },
	func() interface{} { return &okUnp{} },
	func() interface{} { return new(interface{}) },
	func() interface{} { return nStr("n") },
	func() interface{} { return ucfg.New() },
}

// fill pre-fills v with fresh (never shared, never cyclic) values.
func fill(r *rand.Rand, v reflect.Value, depth int) {
	if !v.CanSet() || r.Intn(3) == 0 {
		return
	}
	switch v.Kind() {
	case reflect.Int, reflect.Int8, reflect.Int16, reflect.Int32, reflect.Int64:
		v.SetInt(int64(r.Intn(5)))
	case reflect.Uint, reflect.Uint8, reflect.Uint16, reflect.Uint32, reflect.Uint64:
		v.SetUint(uint64(r.Intn(5)))
	case reflect.Float32, reflect.Float64:
		v.SetFloat(1.5)
	case reflect.String:
		v.SetString("pre")
	case reflect.Bool:
		v.SetBool(true)
	case reflect.Ptr:
		if depth <= 0 {
			return
		}
		p := reflect.New(v.Type().Elem())
		switch v.Type().Elem() { // a Config is made by ucfg.New, never as a zero value
		case reflect.TypeOf(ucfg.Config{}):
			p = reflect.ValueOf(ucfg.New())
		case reflect.TypeOf(myCfg{}):
			p = reflect.ValueOf((*myCfg)(ucfg.New()))
		}
		fill(r, p.Elem(), depth-1)
		v.Set(p)
	case reflect.Slice:
		n := r.Intn(5)
		s := reflect.MakeSlice(v.Type(), n, n)
		if depth > 0 {
			for i := 0; i < n; i++ {
				fill(r, s.Index(i), depth-1)
			}
		}
		v.Set(s)
	case reflect.Array:
		if depth > 0 {
			for i := 0; i < v.Len(); i++ {
				fill(r, v.Index(i), depth-1)
			}
		}
	case reflect.Map:
		mv := reflect.MakeMap(v.Type())
		if v.Type().Key().Kind() == reflect.String && depth > 0 {
			for _, k := range fieldKeys {
				if r.Intn(2) == 0 {
					continue
				}
				e := reflect.New(v.Type().Elem()).Elem()
				fill(r, e, depth-1)
				mv.SetMapIndex(reflect.ValueOf(k).Convert(v.Type().Key()), e)
			}
		}
		v.Set(mv)
	case reflect.Interface:
		if v.Type().NumMethod() == 0 {
			x := ifaceFills[r.Intn(len(ifaceFills))]()
			v.Set(reflect.ValueOf(x))
		} else if v.Type() == reflect.TypeOf((*fmt.Stringer)(nil)).Elem() {
			v.Set(reflect.ValueOf(stringerT{"s"}))
		} else if v.Type() == reflect.TypeOf((*error)(nil)).Elem() {
			v.Set(reflect.ValueOf(errRefused))
		}
	case reflect.Struct:
		if v.Type() == reflect.TypeOf(ucfg.Config{}) || v.Type() == reflect.TypeOf(myCfg{}) || v.Type() == reflect.TypeOf(regexp.Regexp{}) {
			return
		}
		if depth <= 0 {
			return
		}
		for i := 0; i < v.NumField(); i++ {
			fill(r, v.Field(i), depth-1)
		}
	case reflect.Chan:
		v.Set(reflect.MakeChan(v.Type(), 0))
	}
}

func randConfigData(r *rand.Rand, depth int) interface{} {
	k := r.Intn(10)
	if depth <= 0 && k >= 5 {
		k = r.Intn(5)
	}
	switch {
	case k < 3:
		return []interface{}{1, -1, "s", "1h", true, 2.5, "", uint64(1) << 63, "${a}", "[1,2]"}[r.Intn(10)]
	case k < 5:
		return nil
	case k < 8:
		out := mp{}
		for _, key := range fieldKeys {
			if r.Intn(2) == 0 {
				out[key] = randConfigData(r, depth-1)
			}
		}
		return out
	default:
		out := li{}
		for i, n := 0, r.Intn(4); i < n; i++ {
			out = append(out, randConfigData(r, depth-1))
		}
		return out
	}
}

func runTargetsRandom(m *mon, r *rand.Rand, seed int64, tier string, k int) {
	res := m.res
	for n := 0; n < 40; n++ {
		var typ reflect.Type
		func() {
			defer func() {
				if recover() != nil {
					typ = nil // reflect refuses to build this type
				}
			}()
			typ = randType(r, 1+r.Intn(4))
		}()
		if typ == nil {
			res.Ev("d_random_types_not_constructible", 1)
			continue
		}
		fillSeed := r.Int63()
		how := r.Intn(4)
		mk := func() interface{} {
			fr := rand.New(rand.NewSource(fillSeed))
			p := reflect.New(typ)
			switch typ { // a Config is made by ucfg.New, never as a zero value
			case reflect.TypeOf(ucfg.Config{}):
				p = reflect.ValueOf(ucfg.New())
			case reflect.TypeOf(myCfg{}):
				p = reflect.ValueOf((*myCfg)(ucfg.New()))
			}
			func() {
				defer func() { recover() }()
				fill(fr, p.Elem(), 3)
			}()
			switch how {
			case 0:
				if typ.Kind() == reflect.Map {
					return p.Elem().Interface() // map by value
				}
			case 1:
				pp := reflect.New(p.Type())
				pp.Elem().Set(p)
				return pp.Interface()
			}
			return p.Interface()
		}
		var data interface{}
		for {
			data = randConfigData(r, 3)
			if _, ok := data.(mp); ok {
				break
			}
			if _, ok := data.(li); ok {
				break
			}
		}
		varexp := r.Intn(4) == 0
		f := fixture{"random", varexp, func() interface{} { return data }}
		o := dOpts[r.Intn(len(dOpts))]
		res.SetAdd("random_target_kind", kindPath(typ))
		unpackIntoRandom(m, typ, mk, f, o)
	}
	res.Ev("d_random_target_cases", 1)
}

// kindPath: the outer three kinds of a type, e.g. ptr>map>struct
func kindPath(t reflect.Type) string {
	var ks []string
	for i := 0; i < 3; i++ {
		ks = append(ks, t.Kind().String())
		switch t.Kind() {
		case reflect.Ptr, reflect.Slice, reflect.Array, reflect.Map:
			t = t.Elem()
			continue
		}
		break
	}
	return strings.Join(ks, ">")
}

func unpackIntoRandom(m *mon, typ reflect.Type, mk func() interface{}, f fixture, o dOpt) {
	res := m.res
	opts := append([]ucfg.Option{}, o.opts...)
	if f.varexp {
		opts = append(opts, ucfg.VarExp)
	}
	var c *ucfg.Config
	m.do(call{entry: "NewFrom", desc: func() string { return fmt.Sprintf("%v options %s", f.build(), o.name) }}, func() {
		c, _ = ucfg.NewFrom(f.build(), opts...)
	})
	if c == nil {
		return
	}
	ts := typ.String()
	if len(ts) > 300 {
		ts = ts[:300] + "..."
	}
	res.Key("DR|" + ts + "|" + fmt.Sprint(f.build()))
	res.SetAdd("input_class", "target:random-type")
	to := mk()
	d := func() string {
		return fmt.Sprintf("random target %T pre-filled as %s <- config %v, options %s varexp=%v", to, render1(mk()), f.build(), o.name, f.varexp)
	}
	var err error
	st := m.do(call{entry: "Unpack", class: "random-target", desc: d, msgInSig: true}, func() { err = c.Unpack(to, opts...) })
	switch {
	case st != stOK:
	case err != nil:
		res.Ev("d_unpack_errors", 1)
	default:
		res.Ev("d_unpack_ok", 1)
	}
}

func render1(v interface{}) (s string) {
	defer func() {
		if recover() != nil {
			s = "?"
		}
	}()
	s = fmt.Sprintf("%+v", v)
	if len(s) > 300 {
		s = s[:300] + "..."
	}
	return s
}
