package c07

import (
	"fmt"
	"math/rand"
	"runtime"
	"strings"

	ucfg "github.com/elastic/go-ucfg"
	uhjson "github.com/elastic/go-ucfg/hjson"
	ujson "github.com/elastic/go-ucfg/json"
	uyaml "github.com/elastic/go-ucfg/yaml"
)

// workload (l): inputs that are WIDE instead of deep - a list of n elements,
// a string of n escapes or references. "Returns" is judged by a logical cost,
// never by wall time: the bytes a call allocates (runtime.MemStats.TotalAlloc,
// cumulative, exact, independent of the load of the machine) for n and for 4n
// units of input. Work proportional to the input multiplies the allocation by
// about 4 (n log n: 4.4), work that re-copies what it has built for every
// further unit by about 16. More than growthFactor is a violation
// "superlinear-allocation:<class>"; only a unit that passes is run with 10^5
// (quick) or 10^6 (thorough, and the top-level list in quick) units, where its
// allocation per unit must not exceed growthSlack times the one at 4n.

const (
	growthFactor = 8.0
	growthSlack  = 3.0
)

type growthUnit struct {
	name  string
	class string // part of the signature
	small int    // n of the factor test (n and 4n)
	big   []int  // quick, thorough
	// run executes the calls for size n; bound = list bound for the grow monitor
	run func(m *mon, n int) (ok bool)
}

func allocDuring(f func()) uint64 {
	var a, b runtime.MemStats
	runtime.ReadMemStats(&a)
	f()
	runtime.ReadMemStats(&b)
	return b.TotalAlloc - a.TotalAlloc
}

func listDoc(n int) string { return "[" + strings.Repeat("0,", n-1) + "0]" }

func intList(n int) []interface{} {
	out := make([]interface{}, n)
	for i := range out {
		out[i] = i
	}
	return out
}

func loaderUnit(name, class string, f func([]byte, ...ucfg.Option) (*ucfg.Config, error), doc func(n int) string, big []int) growthUnit {
	return growthUnit{name, class, 1000, big, func(m *mon, n int) bool {
		var err error
		var c *ucfg.Config
		st := m.do(call{entry: name, class: "wide-list", bound: n + defaultMaxIdx + 2, desc: func() string { return fmt.Sprintf("%s of a list of %d elements", name, n) }}, func() {
			c, err = f([]byte(doc(n)))
		})
		if st != stOK || err != nil || c == nil {
			return false
		}
		return true
	}}
}

func mergeUnit(name, class string, dst func() interface{}, src func(n int) interface{}, opts ...ucfg.Option) growthUnit {
	return growthUnit{name, class, 1000, []int{100000, 1000000}, func(m *mon, n int) bool {
		var err error
		st := m.do(call{entry: "Merge", class: "wide-list", bound: 2*n + defaultMaxIdx + 2, desc: func() string { return fmt.Sprintf("%s with %d elements", name, n) }}, func() {
			var c *ucfg.Config
			if c, err = ucfg.NewFrom(dst(), opts...); err == nil {
				err = c.Merge(src(n), opts...)
			}
		})
		return st == stOK && err == nil
	}}
}

func varexpUnit(name, class, unit string, wrap func(s string) string) growthUnit {
	return growthUnit{name, class, 2500, []int{100000, 1000000}, func(m *mon, n int) bool {
		s := strings.Repeat(unit, n)
		if wrap != nil {
			s = wrap(s)
		}
		opts := []ucfg.Option{ucfg.VarExp, ucfg.PathSep(".")}
		var err error
		st := m.do(call{entry: "NewFrom", class: "wide-varexp-string", budget: 4*n + stepBudget, desc: func() string {
			return fmt.Sprintf("NewFrom + String of {a: v, s: %s} (%q repeated %d times) under VarExp", short(s[:min(len(s), 40)])+"...", unit, n)
		}}, func() {
			var c *ucfg.Config
			if c, err = ucfg.NewFrom(map[string]interface{}{"a": "v", "s": s}, opts...); err == nil {
				_, err = c.String("s", -1, opts...)
			}
		})
		// a string the syntax refuses is as good an input as any other
		return st == stOK
	}}
}

func min(a, b int) int {
	if a < b {
		return a
	}
	return b
}

var growthUnits = []growthUnit{
	loaderUnit("json.NewConfig", "wide-list:top-level-list", ujson.NewConfig, listDoc, []int{1000000, 1000000}),
	loaderUnit("yaml.NewConfig", "wide-list:top-level-list", uyaml.NewConfig, listDoc, []int{100000, 1000000}),
	loaderUnit("hjson.NewConfig", "wide-list:top-level-list", uhjson.NewConfig, listDoc, []int{100000, 1000000}),
	loaderUnit("json.NewConfig", "wide-list:list-below-a-key", ujson.NewConfig, func(n int) string { return `{"a":` + listDoc(n) + `}` }, []int{100000, 1000000}),
	loaderUnit("yaml.NewConfig", "wide-list:list-of-lists", uyaml.NewConfig, func(n int) string { return "[[1],[2]," + listDoc(n) + "]" }, []int{100000, 1000000}),
	{"NewFrom([]interface{}) + Unpack + FlattenedKeys", "wide-list:top-level-list", 1000, []int{100000, 1000000}, func(m *mon, n int) bool {
		var err error
		st := m.do(call{entry: "NewFrom", class: "wide-list", bound: n + defaultMaxIdx + 2, desc: func() string { return fmt.Sprintf("NewFrom of a list of %d elements, Unpack, FlattenedKeys", n) }}, func() {
			var c *ucfg.Config
			if c, err = ucfg.NewFrom(intList(n)); err == nil {
				var out []interface{}
				err = c.Unpack(&out)
				c.FlattenedKeys()
			}
		})
		return st == stOK && err == nil
	}},
	mergeUnit("Merge {a: [n]} onto {a: [1]} (default policy)", "wide-list:merge-onto-shorter-list",
		func() interface{} { return mp{"a": li{1}} }, func(n int) interface{} { return mp{"a": intList(n)} }),
	mergeUnit("Merge {a: [n]} onto {a: [1]} (AppendValues)", "wide-list:append-policy",
		func() interface{} { return mp{"a": li{1}} }, func(n int) interface{} { return mp{"a": intList(n)} }, ucfg.AppendValues),
	mergeUnit("Merge {a: [n]} onto {a: [1]} (PrependValues)", "wide-list:prepend-policy",
		func() interface{} { return mp{"a": li{1}} }, func(n int) interface{} { return mp{"a": intList(n)} }, ucfg.PrependValues),
	mergeUnit("Merge {a: [n]} onto {a: [1]} (ReplaceValues)", "wide-list:replace-policy",
		func() interface{} { return mp{"a": li{1}} }, func(n int) interface{} { return mp{"a": intList(n)} }, ucfg.ReplaceValues),
	mergeUnit("Merge {a: [n]} onto {a: [1]} (ReplaceArrValues)", "wide-list:replace-policy",
		func() interface{} { return mp{"a": li{1}} }, func(n int) interface{} { return mp{"a": intList(n)} }, ucfg.ReplaceArrValues),
	mergeUnit("Merge {a: [n]} onto {a: [1]} (FieldAppendValues(a))", "wide-list:append-policy",
		func() interface{} { return mp{"a": li{1}} }, func(n int) interface{} { return mp{"a": intList(n)} }, ucfg.FieldAppendValues("a")),
	mergeUnit("Merge [n] onto [1, 2] (top level)", "wide-list:merge-onto-shorter-list",
		func() interface{} { return li{1, 2} }, func(n int) interface{} { return intList(n) }),
	mergeUnit("Merge {a: [n]} onto {a: [n]} (same length, by index)", "wide-list:merge-by-index",
		func() interface{} { return mp{"a": li{}} }, func(n int) interface{} { return mp{"a": intList(n)} }),
	{"Unpack of {a: [n]} into struct{A []int} with append tag", "wide-list:unpack", 1000, []int{100000, 1000000}, func(m *mon, n int) bool {
		var err error
		st := m.do(call{entry: "Unpack", class: "wide-list", bound: n + defaultMaxIdx + 2, desc: func() string { return fmt.Sprintf("Unpack of a list of %d elements into []int pre-filled, append", n) }}, func() {
			var c *ucfg.Config
			if c, err = ucfg.NewFrom(mp{"a": intList(n)}); err == nil {
				to := struct {
					A []int `config:"a,append"`
				}{A: []int{1, 2, 3}}
				err = c.Unpack(&to)
			}
		})
		return st == stOK && err == nil
	}},

	varexpUnit("$$ repeated", "varexp-string:repeated-escapes", "$$", nil),
	varexpUnit("$} repeated", "varexp-string:repeated-escapes", "$}", nil),
	varexpUnit("a$$ repeated", "varexp-string:repeated-escapes", "a$$", nil),
	varexpUnit("escapes inside an expansion", "varexp-string:repeated-escapes", "$}", func(s string) string { return "${nowhere:" + s + "}" }),
	varexpUnit("${a} repeated", "varexp-string:repeated-references", "${a}", nil),
	varexpUnit("x${a}y repeated", "varexp-string:repeated-references", "x${a}y", nil),
	varexpUnit("${nowhere:d} repeated", "varexp-string:repeated-references", "${nowhere:d}", nil),
	varexpUnit("$ repeated (pairs of them are escapes)", "varexp-string:repeated-escapes", "$", nil),
	varexpUnit("} repeated", "varexp-string:repeated-plain-specials", "}", nil),
	varexpUnit(": and } inside an expansion", "varexp-string:repeated-plain-specials", ":x", func(s string) string { return "${nowhere" + s + "}" }),
	varexpUnit("$a repeated", "varexp-string:repeated-plain-specials", "$a", nil),
}

func growthCases() int { return len(growthUnits) + 1 }

func runGrowth(m *mon, r *rand.Rand, seed int64, tier string, k int) {
	res := m.res
	if k >= len(growthUnits) {
		runAmplification(m)
		return
	}
	u := growthUnits[k]
	res.Key("L|" + u.name)
	res.SetAdd("input_class", "growth/"+u.class)
	res.SetAdd("l_unit", u.name)
	measure := func(n int) (uint64, bool) {
		ok := false
		a := allocDuring(func() { ok = u.run(m, n) })
		return a, ok
	}
	// warm up (lazily initialised tables of the decoders) and measure
	measure(u.small / 10)
	a1, ok1 := measure(u.small)
	a4, ok4 := measure(4 * u.small)
	if !ok1 || !ok4 {
		res.Ev("l_units_refused_or_aborted", 1)
		return
	}
	factor := float64(a4) / float64(a1+1)
	res.SetAdd("l_factor_for_4x_input", fmt.Sprintf("%s: %.1f", u.class, factor))
	if m.verbose {
		fmt.Printf("%s: %d units -> %d bytes allocated, %d units -> %d bytes: factor %.2f\n", u.name, u.small, a1, 4*u.small, a4, factor)
	}
	if factor > growthFactor {
		res.Ev("l_superlinear_units", 1)
		res.Violate("superlinear-allocation:"+u.class,
			"%s: %d units of input make the calls allocate %d bytes, %d units %d bytes: 4 x the input multiplies the allocation by %.1f (proportional work: about 4, re-copying for every unit: about 16; bound %.0f); at this rate %d units need %.0f GB",
			u.name, u.small, a1, 4*u.small, a4, factor, growthFactor, 1000000, float64(a4)*(1e6/float64(4*u.small))*(1e6/float64(4*u.small))/1e9)
		return
	}
	res.Ev("l_linear_units", 1)
	big := u.big[0]
	if tier == "thorough" {
		big = u.big[1]
	}
	ab, okb := measure(big)
	if !okb {
		res.Ev("l_big_inputs_refused_or_aborted", 1)
		return
	}
	res.Ev("l_big_inputs_returned", 1)
	res.SetAdd("l_big_input_units_log10", fmt.Sprint(len(fmt.Sprint(big))-1))
	perUnitBig, perUnitSmall := float64(ab)/float64(big), float64(a4)/float64(4*u.small)
	if m.verbose {
		fmt.Printf("%s: %d units -> %d bytes (%.0f per unit; %.0f per unit at %d)\n", u.name, big, ab, perUnitBig, perUnitSmall, 4*u.small)
	}
	if perUnitBig > growthSlack*perUnitSmall {
		res.Violate("superlinear-allocation:"+u.class,
			"%s: %d units of input make the calls allocate %.0f bytes per unit, %d units %.0f bytes per unit (more than %.0f x as much)",
			u.name, 4*u.small, perUnitSmall, big, perUnitBig, growthSlack)
	}
}

// runAmplification: references that multiply ("${a1}${a1}"): the size of a
// correctly computed value is not bounded by the property - monitored, not
// judged (see Assumptions).
func runAmplification(m *mon) {
	res := m.res
	res.Key("L|amplification")
	for _, n := range []int{8, 12, 16} {
		n := n
		in := map[string]interface{}{}
		size := 0
		for i := 0; i < n; i++ {
			in[fmt.Sprintf("a%d", i)] = fmt.Sprintf("${a%d}${a%d}", i+1, i+1)
			size += 20
		}
		in[fmt.Sprintf("a%d", n)] = "x"
		m.do(call{entry: "String", class: "multiplying-references", budget: 1 << 20, desc: func() string { return fmt.Sprintf("a0 of %d settings a_i = ${a_i+1}${a_i+1}", n+1) }}, func() {
			c, err := ucfg.NewFrom(in, ucfg.VarExp)
			if err != nil {
				return
			}
			s, _ := c.String("a0", -1, ucfg.VarExp)
			res.SetAdd("l_amplification_of_multiplying_references", fmt.Sprintf("%d settings (%d bytes) -> %d bytes", n+1, size, len(s)))
		})
	}
	res.Ev("l_amplification_monitored", 1)
}
