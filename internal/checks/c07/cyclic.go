package c07

import (
	"math/rand"

	ucfg "github.com/elastic/go-ucfg"
)

// workload (p): Go values that CONTAIN THEMSELVES, in probe processes (a walk
// that follows such a value forever ends in a fatal error of the runtime or in
// the heap / processor-time watchdog - nothing a worker could recover from).
//
//	unit "cyclic-go-input-values":    the value is the SOURCE of NewFrom / Merge
//	unit "cyclic-prefilled-targets":  the value is the pre-filled TARGET of Unpack
//
// Any returned value or error is accepted; the row only has to return. The
// signature names the shape of the cycle (what kind of edge closes it).

// ---------------------------------------------------------------------------
// types (the self-inlining ones of probes.go are used as well)

type cycNamedA struct {
	A int        `config:"a"`
	B *cycNamedB `config:"b"`
}
type cycNamedB struct {
	V int        `config:"v"`
	A *cycNamedA `config:"next"`
}

type cycMapT map[string]cycMapT
type cycSliceT []cycSliceT

// cycNode: one type, every kind of edge
type cycNode struct {
	A      int                    `config:"a"`
	Next   *cycNode               `config:"next"`
	Any    interface{}            `config:"any"`
	M      map[string]interface{} `config:"m"`
	L      []interface{}          `config:"l"`
	Kids   []*cycNode             `config:"kids"`
	ByName map[string]*cycNode    `config:"by_name"`
	Arr    [1]interface{}         `config:"arr"`
}

type cycNodeV struct {
	A    int                    `config:"a" validate:"min=0"`
	Next *cycNodeV              `config:"next" validate:"required"`
	Any  interface{}            `config:"any" validate:"required"`
	M    map[string]interface{} `config:"m" validate:"nonzero"`
	L    []interface{}          `config:"l" validate:"nonzero"`
}

type cycInlineRest struct {
	A    int                    `config:"a"`
	Rest map[string]interface{} `config:",inline"`
}

// the inline field comes FIRST (or alone): with a named field before it the
// second round of the walk is refused as a duplicate key before it can go on
type cycInlineFirst struct {
	Next *cycInlineFirst `config:",inline"`
	A    int             `config:"a"`
}
type cycInlineOnly struct {
	Next *cycInlineOnly `config:",inline"`
}
type cycMutFirstA struct {
	B *cycMutFirstB `config:",inline"`
	A int           `config:"a"`
}
type cycMutFirstB struct {
	A *cycMutFirstA `config:",inline"`
	V int           `config:"v"`
}
type cycEmbFirst struct {
	*cycEmbFirst `config:",inline"`
	A            int `config:"a"`
}
type cycInlineIfaceFirst struct {
	Next interface{} `config:",inline"`
	A    int         `config:"a"`
}

type cycShape struct {
	shape string // part of the signature
	label string
	mk    func() interface{}
}

// ---------------------------------------------------------------------------
// unit 4: cyclic values as SOURCE

var cyclicInputShapes = []cycShape{
	{"named-pointer", "x.Next = x (named pointer field)", func() interface{} {
		x := &cycNode{A: 1}
		x.Next = x
		return x
	}},
	{"inline-pointer", "x.Next = x, Next tagged ,inline", func() interface{} {
		x := &selfInline{A: 1}
		x.Next = x
		return x
	}},
	{"map", `m["self"] = m (map[string]interface{})`, func() interface{} {
		m := mp{"n": 1}
		m["self"] = m
		return m
	}},
	{"slice", "s[1] = s ([]interface{})", func() interface{} {
		s := li{1, nil}
		s[1] = s
		return s
	}},
	{"interface", "x.Any = x (interface{} field holding the pointer)", func() interface{} {
		x := &cycNode{A: 1}
		x.Any = x
		return x
	}},
	{"inline-pointer", "x.Next = x, Next tagged ,inline and the FIRST field", func() interface{} {
		x := &cycInlineFirst{A: 1}
		x.Next = x
		return x
	}},
	{"mutual-inline-pointers", "a inlines *b, b inlines *a, the inline fields first", func() interface{} {
		a := &cycMutFirstA{A: 1}
		a.B = &cycMutFirstB{V: 2, A: a}
		return a
	}},
	{"inline-pointer", "x.Next = x, the inline pointer the only field", func() interface{} {
		x := &cycInlineOnly{}
		x.Next = x
		return x
	}},
	{"inline-pointer", "embedded *T tagged ,inline as first field pointing to the value itself", func() interface{} {
		x := &cycEmbFirst{A: 1}
		x.cycEmbFirst = x
		return x
	}},
	{"inline-interface", "x.Next = x, Next an inline interface{} and the first field", func() interface{} {
		x := &cycInlineIfaceFirst{A: 1}
		x.Next = x
		return x
	}},
	{"inline-pointer", "inline-first self-inlining value below a named field, a map key and a list", func() interface{} {
		x := &cycInlineFirst{A: 1}
		x.Next = x
		return &struct {
			Sub *cycInlineFirst `config:"sub"`
			M   mp              `config:"m"`
			L   li              `config:"l"`
		}{x, mp{"k": x}, li{x}}
	}},
	{"mutual-inline-pointers", "a inlines *b, b inlines *a", func() interface{} {
		a := &selfInlineA{A: 1}
		a.B = &selfInlineB{V: 2, A: a}
		return a
	}},
	{"mutual-named-pointers", "a.B = b, b.A = a (named fields)", func() interface{} {
		a := &cycNamedA{A: 1}
		a.B = &cycNamedB{V: 2, A: a}
		return a
	}},
	{"inline-pointer", "embedded *T tagged ,inline pointing to the value itself", func() interface{} {
		x := &selfEmbedded{A: 1}
		x.selfEmbedded = x
		return x
	}},
	{"mutual-inline-pointers", "ring of three types inlining pointers", func() interface{} {
		a := &selfInline3A{A: 1}
		a.B = &selfInline3B{C: &selfInline3C{X: 3, A: a}}
		return a
	}},
	{"inline-pointer", "self-inlining value below a named field, a map key and a list", func() interface{} {
		x := &selfInline{A: 1}
		x.Next = x
		return &struct {
			Sub *selfInline `config:"sub"`
			M   mp          `config:"m"`
			L   li          `config:"l"`
		}{x, mp{"k": x}, li{x}}
	}},
	{"inline-pointer", "self-inlining struct passed by value", func() interface{} {
		x := &selfInline{A: 1}
		x.Next = x
		return *x
	}},
	{"inline-pointer", "inline and named pointer to itself, both set", func() interface{} {
		x := &selfInlineAndNamed{A: 1}
		x.Inline, x.Next = x, x
		return x
	}},
	{"inline-map", `x.Rest["self"] = x, Rest an inline map`, func() interface{} {
		x := &cycInlineRest{A: 1, Rest: mp{}}
		x.Rest["self"] = x
		return x
	}},
	{"inline-map", "inline map of pointers to the type holding the value", func() interface{} {
		x := &selfInlineMap{A: 1}
		x.Rest = map[string]*selfInlineMap{"self": x}
		return x
	}},
	{"inline-interface", "x.Next = x, Next an inline interface{}", func() interface{} {
		x := &selfInlineIface{A: 1}
		x.Next = x
		return x
	}},
	{"typed-map", `type M map[string]M; m["x"] = m`, func() interface{} {
		m := cycMapT{}
		m["x"] = m
		return m
	}},
	{"typed-slice", "type S []S; s[0] = s", func() interface{} {
		s := make(cycSliceT, 1)
		s[0] = s
		return s
	}},
	{"pointer-to-interface", "var i interface{}; i = &i", func() interface{} {
		var i interface{}
		i = &i
		return i
	}},
	{"map-and-slice", `m["l"] = []interface{}{m}; two routes back`, func() interface{} {
		m := mp{}
		m["l"] = li{m, mp{"up": m}}
		m["again"] = m
		return m
	}},
	{"slice-of-pointers", "x.Kids = {x}; x.ByName[me] = x", func() interface{} {
		x := &cycNode{A: 1}
		x.Kids = []*cycNode{x}
		x.ByName = map[string]*cycNode{"me": x}
		return x
	}},
	{"array-in-interface", "x.Arr[0] = x", func() interface{} {
		x := &cycNode{A: 1}
		x.Arr[0] = x
		return x
	}},
	// controls: shared, not cyclic
	{"no-cycle-shared-value", "one value below two names and twice in a list", func() interface{} {
		x := &selfInline{A: 1, Next: &selfInline{A: 2}}
		sh := mp{"k": li{1}}
		return mp{"p": x, "q": x, "l": li{x, x, sh, sh}, "m": sh}
	}},
}

type cycCall struct {
	name string
	f    func(v interface{}, o []ucfg.Option) string
}

var cyclicInputOpts = [][]ucfg.Option{
	nil,
	{ucfg.PathSep("."), ucfg.AppendValues},
	{ucfg.ReplaceValues},
	{ucfg.VarExp, ucfg.PrependValues},
}

var cyclicInputOptNames = []string{"no options", "PathSep+AppendValues", "ReplaceValues", "VarExp+PrependValues"}

// a value that is refused at the nesting limit costs ~0.1 s of processor time:
// one call per row, the option set rotates with the row
var cyclicInputCalls = []cycCall{
	{"NewFrom", func(v interface{}, o []ucfg.Option) string {
		if _, err := ucfg.NewFrom(v, o...); err != nil {
			return "refused"
		}
		return "accepted"
	}},
	{"Merge into an empty destination", func(v interface{}, o []ucfg.Option) string {
		if err := ucfg.New().Merge(v, o...); err != nil {
			return "refused"
		}
		return "accepted"
	}},
	{"Merge into a populated destination, read afterwards", func(v interface{}, o []ucfg.Option) string {
		dst, err := ucfg.NewFrom(mp{"a": 1, "next": mp{"a": 2, "next": mp{}}, "self": mp{"n": 1}, "l": li{1, li{2}}, "any": 3}, o...)
		if err != nil {
			return "destination-refused"
		}
		out := "accepted"
		if err := dst.Merge(v, o...); err != nil {
			out = "refused"
		}
		// whatever was merged in before the refusal must be readable
		var to map[string]interface{}
		dst.Unpack(&to, o...)
		dst.FlattenedKeys(o...)
		return out
	}},
}

// row -> (shape, call, option set); the shape varies fastest: the first rows
// cover every shape through NewFrom; Merge rows alternate between the two
// kinds of destination
func cyclicInputRow(i int) (cycShape, cycCall, int) {
	n := len(cyclicInputShapes)
	si, ci := i%n, i/n
	if ci == 1 && si%2 == 1 {
		ci = 2
	}
	return cyclicInputShapes[si], cyclicInputCalls[ci], (si + 2*(i/n)) % len(cyclicInputOpts)
}

var unitCyclicInputs = probeUnit{
	name: "cyclic-go-input-values",
	rows: func() int { return len(cyclicInputShapes) * 2 },
	label: func(i int) string {
		sh, call, o := cyclicInputRow(i)
		return sh.label + " -> " + call.name + " (" + cyclicInputOptNames[o] + ")"
	},
	class: func(i int) string { sh, _, _ := cyclicInputRow(i); return "cyclic-go-input:" + sh.shape },
	run: func(i int) string {
		sh, call, o := cyclicInputRow(i)
		return call.f(sh.mk(), cyclicInputOpts[o])
	},
	maxDeaths: 24,
}

// ---------------------------------------------------------------------------
// unit 5: cyclic values as pre-filled TARGET

var cyclicTargetShapes = []cycShape{
	{"through-interface", `field M map[string]interface{}; M["self"] = M`, func() interface{} {
		x := &cycNode{M: mp{"n": 1}}
		x.M["self"] = x.M
		return x
	}},
	{"through-pointer", "x.Next = x", func() interface{} {
		x := &cycNode{A: 1}
		x.Next = x
		return x
	}},
	{"through-interface", "x.Any = x (interface{} field holding the pointer)", func() interface{} {
		x := &cycNode{A: 1}
		x.Any = x
		return x
	}},
	{"through-interface", "field L []interface{}; L[1] = L", func() interface{} {
		x := &cycNode{L: li{1, nil}}
		x.L[1] = x.L
		return x
	}},
	{"through-interface", `top-level map[string]interface{}; m["self"] = m`, func() interface{} {
		m := mp{"n": 1}
		m["self"] = m
		return &m
	}},
	{"through-typed-map", `type M map[string]M; m["x"] = m`, func() interface{} {
		m := cycMapT{}
		m["x"] = m
		return &m
	}},
	{"through-typed-slice", "type S []S; s[0] = s, in a field", func() interface{} {
		s := make(cycSliceT, 1)
		s[0] = s
		return &struct {
			A int       `config:"a"`
			S cycSliceT `config:"s"`
		}{S: s}
	}},
	{"through-slice-and-map-of-pointers", "x.Kids = {x}; x.ByName[me] = x", func() interface{} {
		x := &cycNode{A: 1}
		x.Kids = []*cycNode{x}
		x.ByName = map[string]*cycNode{"me": x}
		return x
	}},
	{"through-interface", "interface -> map -> slice -> pointer -> the interface's holder", func() interface{} {
		x := &cycNode{A: 1}
		x.Any = mp{"l": li{mp{"up": x}}}
		return x
	}},
	{"through-pointer-to-interface", "pointer to an interface{} that holds the pointer, in a field", func() interface{} {
		var i interface{}
		i = &i
		return &struct {
			A int         `config:"a"`
			I interface{} `config:"i"`
		}{I: i}
	}},
	{"through-interface", "array element of interface type holding the struct", func() interface{} {
		x := &cycNode{A: 1}
		x.Arr[0] = x
		return x
	}},
	{"through-interface", "validated fields (required / nonzero) on the cycle", func() interface{} {
		x := &cycNodeV{A: 1}
		x.Next, x.Any = x, x
		x.M = mp{"self": x, "n": 1}
		x.M["m"] = x.M
		x.L = li{x, nil}
		x.L[1] = x.L
		return x
	}},
	{"through-interface", "two values holding each other in interface{} fields, in a map target", func() interface{} {
		a, b := &cycNode{A: 1}, &cycNode{A: 2}
		a.Any, b.Any = b, a
		return &map[string]interface{}{"p": a, "q": mp{"b": b}}
	}},
	{"through-inline-pointer", "self-inlining struct pointing to itself", func() interface{} {
		x := &selfInline{A: 1}
		x.Next = x
		return x
	}},
	{"through-inline-pointer", "self-inlining struct pointing to itself, the inline field first", func() interface{} {
		x := &cycInlineFirst{A: 1}
		x.Next = x
		return x
	}},
	{"through-inline-interface", "inline interface{} holding the struct itself", func() interface{} {
		x := &selfInlineIface{A: 1}
		x.Next = x
		return x
	}},
	// control: shared, not cyclic
	{"no-cycle-shared-value", "one map and one pointer reachable over several routes", func() interface{} {
		sh := mp{"k": li{1}}
		n := &cycNode{A: 2}
		return &cycNode{Any: sh, M: mp{"s": sh, "n": n}, L: li{sh, sh, n}, Next: n, Kids: []*cycNode{n, n}}
	}},
}

type cycConfig struct {
	name  string
	build func() interface{}
}

// the first configs have NO setting for anything on the cycle: the pre-filled
// value is kept and only looked at; the later ones touch it
var cyclicTargetConfigs = []cycConfig{
	{"only a", func() interface{} { return mp{"a": 1} }},
	{"empty", func() interface{} { return mp{} }},
	{"settings for the fields on the cycle", func() interface{} {
		return mp{"a": 2, "next": mp{"a": 5}, "any": mp{"a": 1}, "m": mp{"self": mp{"n": 2}, "z": 1}, "l": li{3}, "self": mp{"self": mp{"n": 3}},
			"x": mp{"x": mp{}}, "s": li{li{}}, "kids": li{mp{"a": 7}}, "by_name": mp{"me": mp{"a": 8}}, "p": mp{"any": mp{"a": 1}}, "i": 1, "arr": li{mp{"a": 9}}}
	}},
	{"primitives where the cycle is", func() interface{} {
		return mp{"next": nil, "any": 1, "m": mp{"self": 2}, "l": li{1, 2, 3}, "self": "s", "x": nil, "s": li{}, "kids": li{}, "i": "s", "arr": li{1}}
	}},
}

var cyclicTargetOpts = [][]ucfg.Option{
	nil,
	{ucfg.PathSep("."), ucfg.AppendValues},
	{ucfg.ReplaceValues},
}

var unitCyclicTargets = probeUnit{
	name: "cyclic-prefilled-targets",
	rows: func() int { return len(cyclicTargetShapes) * len(cyclicTargetConfigs) },
	// the shape varies fastest: the first rows cover every shape without a setting on the cycle
	label: func(i int) string {
		return cyclicTargetShapes[i%len(cyclicTargetShapes)].label + " <- config: " + cyclicTargetConfigs[i/len(cyclicTargetShapes)].name
	},
	class: func(i int) string {
		return "Unpack:cyclic-prefilled-target:" + cyclicTargetShapes[i%len(cyclicTargetShapes)].shape
	},
	run: func(i int) string {
		sh := cyclicTargetShapes[i%len(cyclicTargetShapes)]
		out := "ok"
		for _, o := range cyclicTargetOpts {
			c, err := ucfg.NewFrom(cyclicTargetConfigs[i/len(cyclicTargetShapes)].build(), o...)
			if err != nil {
				return "fixture-refused"
			}
			if err := c.Unpack(sh.mk(), o...); err != nil {
				out = "error"
			}
		}
		return out
	},
	maxDeaths: 24,
}

// the two units are appended to probeUnits (probes.go); workload (m) keeps its
// four units and its case indices, workload (p) is a segment of its own
const firstCyclicUnit = 4
const cyclicUnits = 2

func runCyclicUnit(m *mon, r *rand.Rand, seed int64, tier string, k int) {
	runProbeUnit(m, r, seed, tier, firstCyclicUnit+k)
}
