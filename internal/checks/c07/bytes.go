package c07

import (
	"encoding/json"
	"fmt"
	"math/rand"
	"regexp"
	"strconv"
	"strings"

	ucfg "github.com/elastic/go-ucfg"
	uhjson "github.com/elastic/go-ucfg/hjson"
	ujson "github.com/elastic/go-ucfg/json"
	uyaml "github.com/elastic/go-ucfg/yaml"
)

// workload (b): grammar-mutated documents through the three loaders

type tnode struct {
	kind   byte // 's' scalar, 'm' map, 'l' list
	scalar interface{}
	keys   []string
	kids   []*tnode
}

var docKeys = []string{"a", "b", "a", "0", "1", "a.b", "a.0", "-1", "x y", "${a}", "é", "", "~", "<<", "1024", "1025", "b.a.0", "true", "null", "[a]", "a:b", "#"}

var docStrings = []string{"s", "", "x y", "${a}", "${b.c:def}", "${a.b}", "${", "$", "$${a}", "{", "[1,", "1,2", "[x]", "{y:1}", "a: b", "- a", "# c", "é😀", "\\", "\"", "'", "true", "null", "0x10", "1e3", "~", "*x", "&x", "line1\nline2", "\t", "${0}", "${a:${b:${c}}}"}

func genTree(r *rand.Rand, depth int) *tnode {
	k := r.Intn(10)
	if depth <= 0 && k >= 5 {
		k = r.Intn(5)
	}
	switch {
	case k < 2:
		return &tnode{kind: 's', scalar: docStrings[r.Intn(len(docStrings))]}
	case k == 2:
		switch r.Intn(6) {
		case 0:
			return &tnode{kind: 's', scalar: int64(r.Intn(2000) - 1000)}
		case 1:
			return &tnode{kind: 's', scalar: []float64{0, -0.5, 1e300, 1e-300, 2.5, 1 << 53, 18446744073709551615, -9223372036854775808}[r.Intn(8)]}
		case 2:
			return &tnode{kind: 's', scalar: uint64(1) << uint(r.Intn(64))}
		default:
			return &tnode{kind: 's', scalar: int64(r.Intn(5))}
		}
	case k == 3:
		return &tnode{kind: 's', scalar: r.Intn(2) == 0}
	case k == 4:
		return &tnode{kind: 's', scalar: nil}
	case k < 8:
		n := &tnode{kind: 'm'}
		seen := map[string]bool{}
		for i, c := 0, r.Intn(4); i < c; i++ {
			key := docKeys[r.Intn(len(docKeys))]
			if seen[key] {
				continue
			}
			seen[key] = true
			n.keys = append(n.keys, key)
			n.kids = append(n.kids, genTree(r, depth-1))
		}
		return n
	default:
		n := &tnode{kind: 'l'}
		for i, c := 0, r.Intn(4); i < c; i++ {
			n.kids = append(n.kids, genTree(r, depth-1))
		}
		return n
	}
}

func genDoc(r *rand.Rand) *tnode {
	for {
		t := genTree(r, 3)
		if t.kind != 's' || r.Intn(8) == 0 {
			return t
		}
	}
}

func jsonString(s string) string {
	b, _ := json.Marshal(s)
	return string(b)
}

func jsonScalar(v interface{}) string {
	switch x := v.(type) {
	case nil:
		return "null"
	case bool:
		return strconv.FormatBool(x)
	case int64:
		return strconv.FormatInt(x, 10)
	case uint64:
		return strconv.FormatUint(x, 10)
	case float64:
		return strconv.FormatFloat(x, 'g', -1, 64)
	case string:
		return jsonString(x)
	}
	return "null"
}

func renderJSON(b *strings.Builder, t *tnode, indent string, pretty bool) {
	nl, in := "", ""
	if pretty {
		nl, in = "\n"+indent, "  "
	}
	switch t.kind {
	case 's':
		b.WriteString(jsonScalar(t.scalar))
	case 'm':
		b.WriteString("{")
		for i, k := range t.keys {
			if i > 0 {
				b.WriteString(",")
			}
			b.WriteString(nl + in + jsonString(k) + ":")
			if pretty {
				b.WriteString(" ")
			}
			renderJSON(b, t.kids[i], indent+in, pretty)
		}
		b.WriteString(nl + "}")
	case 'l':
		b.WriteString("[")
		for i, k := range t.kids {
			if i > 0 {
				b.WriteString(",")
			}
			b.WriteString(nl + in)
			renderJSON(b, k, indent+in, pretty)
		}
		b.WriteString(nl + "]")
	}
}

var plainRe = regexp.MustCompile(`^[A-Za-z_][A-Za-z0-9_]*$`)

func plainOrQuoted(s string, r *rand.Rand) string {
	if plainRe.MatchString(s) && r.Intn(4) > 0 {
		return s
	}
	if r.Intn(5) == 0 && !strings.ContainsAny(s, "'\n") {
		return "'" + s + "'"
	}
	return jsonString(s)
}

func yamlScalar(v interface{}, r *rand.Rand) string {
	if s, ok := v.(string); ok {
		return plainOrQuoted(s, r)
	}
	if v == nil && r.Intn(2) == 0 {
		return "~"
	}
	return jsonScalar(v)
}

func renderYAMLBlock(b *strings.Builder, t *tnode, indent string, r *rand.Rand) {
	switch t.kind {
	case 's':
		b.WriteString(" " + yamlScalar(t.scalar, r) + "\n")
	case 'm':
		if len(t.keys) == 0 {
			b.WriteString(" {}\n")
			return
		}
		b.WriteString("\n")
		for i, k := range t.keys {
			b.WriteString(indent + plainOrQuoted(k, r) + ":")
			renderYAMLBlock(b, t.kids[i], indent+"  ", r)
		}
	case 'l':
		if len(t.kids) == 0 {
			b.WriteString(" []\n")
			return
		}
		b.WriteString("\n")
		for _, k := range t.kids {
			b.WriteString(indent + "-")
			renderYAMLBlock(b, k, indent+"  ", r)
		}
	}
}

func renderFlow(b *strings.Builder, t *tnode, r *rand.Rand) {
	switch t.kind {
	case 's':
		b.WriteString(yamlScalar(t.scalar, r))
	case 'm':
		b.WriteString("{")
		for i, k := range t.keys {
			if i > 0 {
				b.WriteString(", ")
			}
			b.WriteString(plainOrQuoted(k, r) + ": ")
			renderFlow(b, t.kids[i], r)
		}
		b.WriteString("}")
	case 'l':
		b.WriteString("[")
		for i, k := range t.kids {
			if i > 0 {
				b.WriteString(", ")
			}
			renderFlow(b, k, r)
		}
		b.WriteString("]")
	}
}

func renderHJSON(b *strings.Builder, t *tnode, indent string, r *rand.Rand) {
	switch t.kind {
	case 's':
		if s, ok := t.scalar.(string); ok {
			switch {
			case strings.Contains(s, "\n") && !strings.Contains(s, "'''"):
				b.WriteString("\n" + indent + "'''\n" + indent + strings.ReplaceAll(s, "\n", "\n"+indent) + "\n" + indent + "'''")
			case s != "" && r.Intn(2) == 0 && !strings.ContainsAny(s[:1], "{}[],:\"' #/") && strings.TrimSpace(s) == s:
				b.WriteString(s) // quoteless
			default:
				b.WriteString(jsonString(s))
			}
			return
		}
		b.WriteString(jsonScalar(t.scalar))
	case 'm':
		b.WriteString("{\n")
		for i, k := range t.keys {
			if r.Intn(6) == 0 {
				b.WriteString(indent + "  # comment\n")
			}
			key := jsonString(k)
			if plainRe.MatchString(k) {
				key = k
			}
			b.WriteString(indent + "  " + key + ": ")
			renderHJSON(b, t.kids[i], indent+"  ", r)
			b.WriteString("\n")
		}
		b.WriteString(indent + "}")
	case 'l':
		b.WriteString("[\n")
		for _, k := range t.kids {
			b.WriteString(indent + "  ")
			renderHJSON(b, k, indent+"  ", r)
			b.WriteString("\n")
		}
		b.WriteString(indent + "]")
	}
}

var formats = []string{"json", "json-pretty", "yaml-block", "yaml-flow", "hjson"}

func render(t *tnode, format string, r *rand.Rand) string {
	var b strings.Builder
	switch format {
	case "json":
		renderJSON(&b, t, "", false)
	case "json-pretty":
		renderJSON(&b, t, "", true)
	case "yaml-block":
		renderYAMLBlock(&b, t, "", r)
		return strings.TrimPrefix(b.String(), "\n")
	case "yaml-flow":
		renderFlow(&b, t, r)
	case "hjson":
		renderHJSON(&b, t, "", r)
	}
	return b.String()
}

var tokenRe = regexp.MustCompile(`"(?:[^"\\]|\\.)*"|'[^']*'|[A-Za-z0-9_.$+-]+|\s+|.`)

var specialTokens = []string{
	"${a}", "${", "}", "${a:", "*x", "&x ", "<<", "!!binary ", "!!set ", "!!map ", "!!python/object ", "!!float ", "!<tag:yaml.org,2002:int> ",
	"---", "...", "%YAML 1.1", "|", ">", "|+2", "? ", "- ", "'''", "#", "//", "/*", "*/", "1e999999", "0x", "-", ".inf", "-.inf", ".nan", "0o17", "017",
	"2001-12-14", "2001-12-14t21:59:43.10-05:00", "~", "99999999999999999999999", "-0", "1_000", "0b101", "1:30:00", "\\u0000", "\\ud800", "\"\\", "\\\"",
	"\t", "\r", "\r\n", "\x00", "\xef\xbb\xbf", "\xff", "\xc0\x80", "\xed\xa0\x80", "\u2028", "\u0085", "[", "]", "{", "}", ":", ",", "\"", "'", "1024", "1025", "a.1025", "65536",
}

var structural = "[]{}:,\"'-#&*!|>%@`?\\ \n\t$"

func mutate(r *rand.Rand, doc string) (string, string) {
	var ops []string
	for n := 1 + r.Intn(3); n > 0; n-- {
		b := []byte(doc)
		op := r.Intn(11)
		switch op {
		case 0: // bit flip
			if len(b) > 0 {
				i := r.Intn(len(b))
				b[i] ^= 1 << uint(r.Intn(8))
			}
			ops = append(ops, "bitflip")
		case 1: // replace a byte by a structural character
			if len(b) > 0 {
				b[r.Intn(len(b))] = structural[r.Intn(len(structural))]
			}
			ops = append(ops, "struct-byte")
		case 2: // insert a structural character
			i := r.Intn(len(b) + 1)
			b = append(b[:i], append([]byte{structural[r.Intn(len(structural))]}, b[i:]...)...)
			ops = append(ops, "insert-struct")
		case 3: // insert a special token
			i := r.Intn(len(b) + 1)
			b = append(b[:i], append([]byte(specialTokens[r.Intn(len(specialTokens))]), b[i:]...)...)
			ops = append(ops, "insert-special")
		case 4: // random bytes
			i := r.Intn(len(b) + 1)
			g := make([]byte, 1+r.Intn(4))
			for j := range g {
				g[j] = byte(r.Intn(256))
			}
			b = append(b[:i], append(g, b[i:]...)...)
			ops = append(ops, "insert-bytes")
		case 5: // truncate
			if len(b) > 0 {
				b = b[:r.Intn(len(b))]
			}
			ops = append(ops, "truncate")
		default: // token level
			toks := tokenRe.FindAllString(doc, -1)
			if len(toks) == 0 {
				break
			}
			i := r.Intn(len(toks))
			switch op {
			case 6:
				toks = append(toks[:i], toks[i+1:]...)
				ops = append(ops, "delete-token")
			case 7:
				toks = append(toks[:i+1], toks[i:]...)
				ops = append(ops, "duplicate-token")
			case 8:
				j := r.Intn(len(toks))
				toks[i], toks[j] = toks[j], toks[i]
				ops = append(ops, "swap-tokens")
			case 9:
				toks[i] = specialTokens[r.Intn(len(specialTokens))]
				ops = append(ops, "replace-token")
			case 10: // duplicate a run of tokens many times
				j := i + 1 + r.Intn(3)
				if j > len(toks) {
					j = len(toks)
				}
				run := strings.Join(toks[i:j], "")
				toks[i] = strings.Repeat(run, 2+r.Intn(30))
				ops = append(ops, "repeat-run")
			}
			b = []byte(strings.Join(toks, ""))
		}
		doc = string(b)
	}
	return doc, strings.Join(ops, "+")
}

func garbage(r *rand.Rand) (string, string) {
	n := r.Intn(40)
	var b []byte
	switch r.Intn(4) {
	case 0:
		for i := 0; i < n; i++ {
			b = append(b, byte(32+r.Intn(95)))
		}
		return string(b), "garbage-ascii"
	case 1:
		var rs []rune
		for i := 0; i < n; i++ {
			rs = append(rs, []rune{rune(r.Intn(0x80)), rune(0x80 + r.Intn(0x780)), rune(0x800 + r.Intn(0xf000)), rune(0x10000 + r.Intn(0xfffff))}[r.Intn(4)])
		}
		return string(rs), "garbage-utf8"
	case 2:
		for i := 0; i < n; i++ {
			b = append(b, byte(r.Intn(256)))
		}
		return string(b), "garbage-bytes"
	default:
		var sb strings.Builder
		for i := 0; i < n; i++ {
			if r.Intn(3) == 0 {
				sb.WriteString(specialTokens[r.Intn(len(specialTokens))])
			} else {
				sb.WriteByte(structural[r.Intn(len(structural))])
			}
			if r.Intn(3) == 0 {
				sb.WriteString([]string{"a", "1", "b", " ", "\n", "\n  "}[r.Intn(6)])
			}
		}
		return sb.String(), "garbage-structural"
	}
}

type loader struct {
	name string
	f    func([]byte, ...ucfg.Option) (*ucfg.Config, error)
}

var loaders = []loader{{"yaml.NewConfig", uyaml.NewConfig}, {"json.NewConfig", ujson.NewConfig}, {"hjson.NewConfig", uhjson.NewConfig}}

type optSet struct {
	name string
	opts []ucfg.Option
}

var loadOpts = []optSet{
	{"none", nil},
	{"PathSep", []ucfg.Option{ucfg.PathSep(".")}},
	{"PathSep+VarExp", []ucfg.Option{ucfg.PathSep("."), ucfg.VarExp}},
}

var probePaths = []string{"a", "a.b", "0"}

// loadAndRead sends one document through every loader and option set and
// reads whatever loaded. deep = the document nests very deeply: the
// quadratic readers are called once only.
func loadAndRead(m *mon, doc, class string, deep bool) { loadAndReadC(m, doc, class, "", deep) }

// loadAndReadC: sigClass = input class that becomes part of a panic signature
// ("" = none).
func loadAndReadC(m *mon, doc, class, sigClass string, deep bool) {
	res := m.res
	if doc != "" {
		res.Key("B|" + doc)
	}
	res.SetAdd("input_class", class)
	bound := defaultMaxIdx + 1
	if len(doc) > bound {
		bound = len(doc)
	}
	loaded := false
	for _, l := range loaders {
		for oi, o := range loadOpts {
			l, o := l, o
			d := func() string { return fmt.Sprintf("%s (%s) with options %s: %s", l.name, class, o.name, short(doc)) }
			var c *ucfg.Config
			var err error
			st := m.do(call{entry: l.name, class: sigClass, bound: bound, desc: d}, func() { c, err = l.f([]byte(doc), o.opts...) })
			res.SetAdd("entry_point", l.name)
			if st != stOK || err != nil || c == nil {
				res.Ev("documents_rejected", 1)
				continue
			}
			res.Ev("documents_loaded", 1)
			loaded = true
			if deep && oi > 0 {
				continue
			}
			m.do(call{entry: "Unpack", class: sigClass, bound: bound, desc: func() string { return "into map after " + d() }}, func() {
				var out map[string]interface{}
				if c.Unpack(&out, o.opts...) != nil {
					res.Ev("reads_failed", 1)
				}
			})
			m.do(call{entry: "Unpack", class: sigClass, bound: bound, desc: func() string { return "into slice after " + d() }}, func() {
				var out []interface{}
				if c.Unpack(&out, o.opts...) != nil {
					res.Ev("reads_failed", 1)
				}
			})
			m.do(call{entry: "FlattenedKeys", class: sigClass, bound: bound, desc: func() string { return "after " + d() }}, func() { c.FlattenedKeys(o.opts...) })
			for _, p := range probePaths {
				p := p
				m.do(call{entry: "Has", class: sigClass, bound: bound, desc: func() string { return fmt.Sprintf("Has(%q,-1) after %s", p, d()) }}, func() { c.Has(p, -1, o.opts...) })
				m.do(call{entry: "String", class: sigClass, bound: bound, desc: func() string { return fmt.Sprintf("String(%q,-1) after %s", p, d()) }}, func() { c.String(p, -1, o.opts...) })
			}
			m.do(call{entry: "String", class: sigClass, bound: bound, desc: func() string { return "String(\"\",0) after " + d() }}, func() { c.String("", 0, o.opts...) })
			for _, e := range []string{"Unpack", "FlattenedKeys", "Has", "String"} {
				res.SetAdd("entry_point", e)
			}
		}
	}
	if loaded {
		res.Ev("documents_loaded_by_some_loader", 1)
	}
}

func runBytes(m *mon, r *rand.Rand, seed int64, tier string, k int) {
	t := genDoc(r)
	format := formats[r.Intn(len(formats))]
	doc := render(t, format, r)
	if len(doc) > 400 {
		doc = doc[:400]
	}
	if m.verbose {
		fmt.Printf("base document (%s): %q\n", format, doc)
	}
	switch k % 3 {
	case 0: // the valid document and mutants of it
		loadAndRead(m, doc, format+"/valid", false)
		for i := 0; i < 14; i++ {
			mut, ops := mutate(r, doc)
			loadAndRead(m, mut, format+"/"+classOfOps(ops), false)
		}
	case 1: // truncation at every offset
		if len(doc) > 160 {
			doc = doc[:160]
		}
		for i := 0; i <= len(doc); i++ {
			loadAndRead(m, doc[:i], format+"/truncated-at-every-offset", false)
		}
		m.res.Ev("b_documents_truncated_at_every_offset", 1)
	case 2: // garbage and suffix truncation
		for i := 0; i < 10; i++ {
			g, class := garbage(r)
			loadAndRead(m, g, class, false)
		}
		for i := 0; i < 5; i++ {
			mut, _ := mutate(r, doc)
			if len(mut) > 0 {
				mut = mut[r.Intn(len(mut)):]
			}
			loadAndRead(m, mut, format+"/mutated-suffix", false)
		}
	}
}

func classOfOps(ops string) string {
	if i := strings.Index(ops, "+"); i >= 0 {
		return "mutated:" + ops[:i] + "+more"
	}
	return "mutated:" + ops
}

var specialDocsCache = buildSpecialDocs()

func specialDocs() []struct{ class, doc string } { return specialDocsCache }

// buildSpecialDocs: deep nesting and YAML/HJSON features that expand or alias.
func buildSpecialDocs() []struct{ class, doc string } {
	rep := strings.Repeat
	laughs := "a: &a [x,x,x,x,x,x,x,x]\n"
	prev := "a"
	for _, n := range []string{"b", "c", "d"} {
		laughs += n + ": &" + n + " [*" + prev + ",*" + prev + ",*" + prev + ",*" + prev + ",*" + prev + ",*" + prev + "]\n"
		prev = n
	}
	out := []struct{ class, doc string }{
		{"deep-open-brackets-100", rep("[", 100)},
		{"deep-open-brackets-10000", rep("[", 10000)},
		{"deep-open-braces-10000", rep("{", 10000)},
		{"deep-open-objects-10000", rep(`{"a":`, 10000)},
		{"deep-open-objects-unquoted-10000", rep(`{a:`, 10000)},
		{"deep-closed-lists-1000", rep("[", 1000) + rep("]", 1000)},
		{"deep-closed-lists-9990", rep("[", 9990) + rep("]", 9990)},
		{"deep-closed-objects-1000", rep(`{"a":`, 1000) + "1" + rep("}", 1000)},
		{"deep-closed-objects-5000", rep(`{"a":`, 5000) + "1" + rep("}", 5000)},
		{"deep-closed-objects-varexp-1000", rep(`{"a":`, 1000) + `"${a}"` + rep("}", 1000)},
		{"deep-yaml-block-seq-2000", rep("- ", 2000) + "x"},
		{"deep-yaml-block-map-500", func() string {
			var b strings.Builder
			for i := 0; i < 500; i++ {
				b.WriteString(rep(" ", i) + "a:\n")
			}
			return b.String()
		}()},
		{"deep-path-key-5000-segments", `{"` + rep("a.", 5000) + `a": 1}`},
		{"deep-path-key-numeric-segments", `{"` + rep("0.", 2000) + `0": 1}`},
		{"wide-list-3000", "[" + rep("1,", 2999) + "1]"},
		{"wide-object-2000", func() string {
			var b strings.Builder
			b.WriteString("{")
			for i := 0; i < 2000; i++ {
				if i > 0 {
					b.WriteString(",")
				}
				fmt.Fprintf(&b, `"k%d":%d`, i, i)
			}
			b.WriteString("}")
			return b.String()
		}()},
		{"numeric-keys-up-to-limit", `{"1024": 1, "1023": {"1024": [1]}, "a.1024.1024": 2}`},
		{"numeric-keys-over-limit", `{"1025": 1, "65536": 2, "a.1048576": 3, "2147483648": 4, "1099511627776.x": 5, "9223372036854775807": 6, "0x7fffffffffffffff": 7, "a.9223372036854775807.b": 8}`},
		{"yaml-billion-laughs-small", laughs},
		{"yaml-self-alias", "a: &a [*a]\n"},
		{"yaml-self-alias-map", "&a a: *a\n"},
		{"yaml-merge-key", "base: &b {x: 1, y: [1,2]}\nc:\n  <<: *b\n  <<: [*b, *b]\n  z: 3\n"},
		{"yaml-merge-key-bad", "c:\n  <<: 5\n"},
		{"yaml-non-string-keys", "1: a\ntrue: b\n~: c\n1.5: d\n[1,2]: e\n{a: b}: f\n? [x]\n: y\n"},
		{"yaml-binary-set-tags", "a: !!binary aGVsbG8=\nb: !!set {x, y}\nc: !!omap [a: 1]\nd: !!timestamp 2001-12-14\ne: !!float 1\nf: !!str 1\ng: !!int \"x\"\n"},
		{"yaml-multi-document", "a: 1\n---\nb: 2\n...\n---\n- c\n"},
		{"yaml-block-scalars", "a: |\n  ${a}\n  [1,\nb: >-\n  {\n\nc: |+\n\n\n"},
		{"yaml-top-level-scalars", "5"},
		{"yaml-top-level-string", "just a string"},
		{"yaml-top-level-null", "~"},
		{"json-top-level-string", `"${a}"`},
		{"json-huge-numbers", `{"a": 1e999999, "b": -1e999999, "c": 123456789012345678901234567890, "d": [1e-999999], "e": -0, "f": 0.1e1}`},
		{"json-escapes", `{"a": "\u0000\ud800\udc00\ud800", "\u0000": 1, "b\u002ec": 2, "\ud800": 3}`},
		{"json-duplicate-keys", `{"a": 1, "a": {"b": 2}, "a": [3], "a.b": 4, "a": {"b": {"c": 5}}}`},
		{"hjson-comments-multiline", "{\n  // c\n  /* c */ a: '''\n    ${a}\n    '''\n  # c\n  b: quoteless ${b} [1,\n  c: [\n    1\n    2\n  ]\n}"},
		{"hjson-rootless", "a: 1\nb: {\nc: [\n"},
		{"varexp-in-keys-and-values", `{"${a}": "${${a}}", "a": "${a.b:${c:${d:${e}}}}", "b": "${a:?${b}}", "c": "$${}${}", "d": "${:}${:+}${:?}"}`},
		{"varexp-cycles", `{"a": "${b}", "b": "${c}", "c": "${a}", "d": {"e": "${d}"}, "f": ["${f}", "${f.0}", "${f.1}"], "g": "${g.h}"}`},
		{"empty", ""},
		{"whitespace-only", " \n\t\r\n"},
		{"bom-only", "\xef\xbb\xbf"},
		{"nul-bytes", "\x00\x00\x00"},
		{"utf16-bom", "\xff\xfea\x00:\x00 \x001\x00"},
	}
	return out
}

func runSpecialDoc(m *mon, r *rand.Rand, seed int64, tier string, k int) {
	s := specialDocs()[k]
	if m.verbose {
		fmt.Printf("special document %s: %s\n", s.class, short(s.doc))
	}
	loadAndRead(m, s.doc, "special/"+s.class, strings.HasPrefix(s.class, "deep-"))
	// the same document cut at a few seed-chosen offsets and with one mutation
	if len(s.doc) > 0 && !strings.HasPrefix(s.class, "deep-") {
		for i := 0; i < 3; i++ {
			loadAndRead(m, s.doc[:r.Intn(len(s.doc))], "special/"+s.class+"/truncated", false)
			mut, _ := mutate(r, s.doc)
			loadAndRead(m, mut, "special/"+s.class+"/mutated", false)
		}
	}
	m.res.Ev("b_special_documents", 1)
}
