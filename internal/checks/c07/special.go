package c07

import (
	"fmt"
	"math"
	"math/rand"
	"reflect"
	"strings"
	"time"

	ucfg "github.com/elastic/go-ucfg"
	uyaml "github.com/elastic/go-ucfg/yaml"
)

// workload (o): special and boundary VALUES met by every kind of typed and
// validated target.
//
// The config fixtures of workload (d) hold ordinary values; what a conversion
// or a validator does with not-a-number, the infinities, negative zero, the
// ends of the integer ranges, numbers only text can spell, is a dimension of
// its own: value (38) x how it gets into the configuration (Go value, YAML
// text - the only format that can spell .nan/.inf -, through a ${reference})
// x where it sits (setting, list element, map value) x target type (24) x
// validator tag (none, presence validators, min/max bounds with ordinary,
// huge, non-numeric, NaN and duration parameters: 16), enumerated completely
// in both tiers, plus the typed getters. Oracle: monitors only.

type specialValue struct {
	class string      // part of the signature
	goVal interface{} // nil = text only
	yaml  string      // "" = not spellable
}

var specialValues = []specialValue{
	{"NaN", math.NaN(), ".nan"},
	{"NaN", float32(math.NaN()), ".NaN"},
	{"NaN", nil, ".NAN"},
	{"infinity", math.Inf(1), ".inf"},
	{"infinity", math.Inf(-1), "-.inf"},
	{"infinity", float32(math.Inf(1)), "+.Inf"},
	{"negative-zero", math.Copysign(0, -1), "-0.0"},
	{"huge-float", math.MaxFloat64, "1.7976931348623157e+308"},
	{"huge-float", -math.MaxFloat64, "-1.7976931348623157e+308"},
	{"huge-float", float64(math.MaxFloat32) * 2, "1e39"},
	{"huge-float", nil, "1e400"},
	{"huge-float", 1e19, "1e19"},
	{"huge-float", -1e19, "-1e19"},
	{"tiny-float", math.SmallestNonzeroFloat64, "5e-324"},
	{"tiny-float", nil, "1e-400"},
	{"integer-range-end", uint64(math.MaxUint64), "18446744073709551615"},
	{"integer-range-end", uint64(1) << 63, "9223372036854775808"},
	{"integer-range-end", int64(math.MaxInt64), "9223372036854775807"},
	{"integer-range-end", int64(math.MinInt64), "-9223372036854775808"},
	{"integer-range-end", nil, "18446744073709551616"},
	{"integer-range-end", nil, "-9223372036854775809"},
	{"integer-range-end", float64(1 << 63), "9223372036854775808.0"},
	{"integer-range-end", float64(1 << 53), "9007199254740993"},
	{"integer-range-end", int64(math.MaxInt32) + 1, "2147483648"},
	{"integer-range-end", 256, "256"},
	{"integer-range-end", -129, "-129"},
	{"fractional", 0.5, "0.5"},
	{"fractional", -0.5, "-0.5"},
	{"fractional", 255.99999999999997, "255.99999999999997"},
	{"number-as-text", "NaN", `"NaN"`},
	{"number-as-text", "inf", `"-Inf"`},
	{"number-as-text", "0x7fffffffffffffff", `"0x8000000000000000"`},
	{"number-as-text", "1e3", `"1_000"`},
	{"number-as-text", " 1", `"1 "`},
	{"duration-text", "9999999999h", `"-9999999999h"`},
	{"duration-text", "1h", `"1.5ns"`},
	{"duration-text", time.Duration(math.MaxInt64), `"2562047h47m16.854775807s"`},
	{"duration-text", time.Duration(math.MinInt64), `"NaNs"`},
}

var specialTypes = []struct {
	name string
	t    reflect.Type
}{
	{"float64", reflect.TypeOf(0.0)}, {"float32", reflect.TypeOf(float32(0))}, {"interface", tIface},
	{"int", reflect.TypeOf(0)}, {"int8", reflect.TypeOf(int8(0))}, {"int16", reflect.TypeOf(int16(0))}, {"int32", reflect.TypeOf(int32(0))}, {"int64", reflect.TypeOf(int64(0))},
	{"uint", reflect.TypeOf(uint(0))}, {"uint8", reflect.TypeOf(uint8(0))}, {"uint16", reflect.TypeOf(uint16(0))}, {"uint32", reflect.TypeOf(uint32(0))}, {"uint64", reflect.TypeOf(uint64(0))},
	{"string", reflect.TypeOf("")}, {"bool", reflect.TypeOf(true)}, {"duration", reflect.TypeOf(time.Duration(0))},
	{"pointer-to-float64", reflect.TypeOf((*float64)(nil))}, {"pointer-to-int8", reflect.TypeOf((*int8)(nil))}, {"pointer-to-interface", reflect.TypeOf((*interface{})(nil))},
	{"named-float", reflect.TypeOf(nFloat(0))}, {"named-string", reflect.TypeOf(nStr(""))},
	{"slice-of-float32", reflect.TypeOf([]float32(nil))}, {"array-of-uint8", reflect.TypeOf([1]uint8{})}, {"map-of-interface", reflect.TypeOf(map[string]interface{}(nil))},
}

var specialTags = []struct{ class, tag string }{
	{"no-validator", ""},
	{"presence-validator", "required"},
	{"presence-validator", "nonzero"},
	{"presence-validator", "positive"},
	{"bound-validator", "min=1"},
	{"bound-validator", "max=0.5"},
	{"bound-validator", "min=0, max=10"},
	{"bound-validator", "min=-1e308"},
	{"bound-validator", "max=1e400"},
	{"bound-validator", "min=18446744073709551615"},
	{"bound-validator", "max=-9223372036854775808"},
	{"bound-validator", "min=NaN"},
	{"bound-validator", "max=inf"},
	{"bound-validator", "min=1h"},
	{"bound-validator", "max=abc"},
	{"bound-validator", "positive, max=1"},
}

// where the value sits: config key and how the target field is shaped
var specialPositions = []struct {
	name, key string
	wrap      func(t reflect.Type) reflect.Type
}{
	{"setting", "a", func(t reflect.Type) reflect.Type { return t }},
	{"list-element", "l", func(t reflect.Type) reflect.Type { return reflect.SliceOf(t) }},
	{"map-value", "m", func(t reflect.Type) reflect.Type { return reflect.MapOf(reflect.TypeOf(""), t) }},
}

type specialRoute struct {
	name  string
	build func(v specialValue) (*ucfg.Config, []ucfg.Option, bool)
}

var specialRoutes = []specialRoute{
	{"Go value", func(v specialValue) (*ucfg.Config, []ucfg.Option, bool) {
		if v.goVal == nil {
			return nil, nil, false
		}
		c, err := ucfg.NewFrom(mp{"a": v.goVal, "l": li{v.goVal, v.goVal}, "m": mp{"k": v.goVal}})
		return c, nil, err == nil
	}},
	{"YAML text", func(v specialValue) (*ucfg.Config, []ucfg.Option, bool) {
		if v.yaml == "" {
			return nil, nil, false
		}
		c, err := uyaml.NewConfig([]byte(fmt.Sprintf("a: %s\nl: [%s, %s]\nm: {k: %s}\n", v.yaml, v.yaml, v.yaml, v.yaml)))
		return c, nil, err == nil
	}},
	{"through a reference", func(v specialValue) (*ucfg.Config, []ucfg.Option, bool) {
		x := v.goVal
		if x == nil {
			x = strings.Trim(v.yaml, `"`)
		}
		opts := []ucfg.Option{ucfg.VarExp}
		c, err := ucfg.NewFrom(mp{"x": x, "a": "${x}", "l": li{"${x}", "${x}"}, "m": mp{"k": "${x}"}}, opts...)
		return c, opts, err == nil
	}},
}

const specialChunk = 1500

func specialCombos() int {
	return len(specialValues) * len(specialRoutes) * len(specialPositions) * len(specialTypes) * len(specialTags)
}

func specialCases() int { return chunks(specialCombos(), specialChunk) }

func runSpecialValues(m *mon, r *rand.Rand, seed int64, tier string, k int) {
	res := m.res
	total := specialCombos()
	type cfgKey struct{ v, rt int }
	type built struct {
		c    *ucfg.Config
		opts []ucfg.Option
		ok   bool
	}
	cache := map[cfgKey]built{}
	for j := k * specialChunk; j < (k+1)*specialChunk && j < total; j++ {
		x := j
		gi := x % len(specialTags)
		x /= len(specialTags)
		ti := x % len(specialTypes)
		x /= len(specialTypes)
		pi := x % len(specialPositions)
		x /= len(specialPositions)
		ri := x % len(specialRoutes)
		vi := x / len(specialRoutes)
		v, rt, pos, typ, tag := specialValues[vi], specialRoutes[ri], specialPositions[pi], specialTypes[ti], specialTags[gi]
		class := "special-value/" + v.class + "/" + tag.class
		show := v.yaml
		if v.goVal != nil {
			show = fmt.Sprintf("%T(%v)", v.goVal, v.goVal)
		}
		b, seen := cache[cfgKey{vi, ri}]
		if !seen {
			m.do(call{entry: "NewFrom", class: class, desc: func() string { return fmt.Sprintf("configuration holding %s, given as %s", show, rt.name) }}, func() {
				b.c, b.opts, b.ok = rt.build(v)
			})
			cache[cfgKey{vi, ri}] = b
			if b.ok && b.c != nil {
				// the typed getters
				for _, key := range []string{"a", "l", "x"} {
					key := key
					m.do(call{entry: "getters", class: class, desc: func() string {
						return fmt.Sprintf("Float/Int/Uint/Bool/String(%q, 0) of %s given as %s", key, show, rt.name)
					}}, func() {
						b.c.Float(key, 0, b.opts...)
						b.c.Int(key, 0, b.opts...)
						b.c.Uint(key, 0, b.opts...)
						b.c.Bool(key, 0, b.opts...)
						b.c.String(key, 0, b.opts...)
					})
				}
				res.Ev("o_configurations_built", 1)
			}
		}
		if !b.ok || b.c == nil {
			res.Ev("o_combinations_without_configuration", 1)
			continue
		}
		structTag := fmt.Sprintf(`config:"%s"`, pos.key)
		if tag.tag != "" {
			structTag += fmt.Sprintf(` validate:"%s"`, tag.tag)
		}
		st := reflect.StructOf([]reflect.StructField{{Name: "F", Type: pos.wrap(typ.t), Tag: reflect.StructTag(structTag)}})
		res.Key(fmt.Sprintf("O|%d|%s|%s|%s|%s", vi, rt.name, pos.name, typ.name, tag.tag))
		res.SetAdd("input_class", class)
		res.SetAdd("o_value_x_validator", v.class+"/"+tag.class)
		res.SetAdd("o_target_type", typ.name)
		res.SetAdd("o_route", rt.name)
		d := func() string {
			return fmt.Sprintf("%s (given as %s) as %s -> struct{ F %s `%s` }", show, rt.name, pos.name, pos.wrap(typ.t), structTag)
		}
		var err error
		s := m.do(call{entry: "Unpack", class: class, desc: d}, func() { err = b.c.Unpack(reflect.New(st).Interface(), b.opts...) })
		switch {
		case s != stOK:
		case err != nil:
			res.Ev("o_unpack_refused", 1)
		default:
			res.Ev("o_unpack_accepted", 1)
		}
		if v.class == "NaN" && tag.class == "bound-validator" && (strings.HasPrefix(typ.name, "float") || typ.name == "interface") {
			res.Ev("o_NaN_into_float_or_interface_with_bound_validator", 1)
		}
	}
	res.SetAdd("entry_point", "Unpack")
	res.Ev("o_special_value_chunks", 1)
}
