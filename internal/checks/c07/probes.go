package c07

import (
	"bytes"
	"context"
	"fmt"
	"math/rand"
	"os"
	"os/exec"
	"runtime"
	"runtime/debug"
	"strconv"
	"strings"
	"syscall"
	"time"

	ucfg "github.com/elastic/go-ucfg"
)

// workload (m): calls that may never return, allocate until the process dies
// or overflow the stack without any hook of the library being passed - they
// cannot be aborted from inside the worker. Each unit is a table of rows
// executed in a probe process (see deep.go) under a watchdog of its own:
//
//	heap above probeHeapLimit        -> the row is reported as no-return:unbounded-allocation:<class>
//	row using more than probeRowTime of processor time (or 10 x as much wall time) -> hang:<class>
//	fatal error of the Go runtime    -> fatal:<stack-overflow|...>:<class>
//	panic                            -> <class>:panic:<package>
//
// After a row ended the probe, the case starts a new probe at the next row.

const (
	probeHeapLimit = 256 << 20
	probeRowTime   = 4 * time.Second
)

type probeUnit struct {
	name  string
	rows  func() int
	label func(i int) string
	class func(i int) string // input class: part of the signature
	run   func(i int) string // outcome word
	// quick tier: probe processes a case may lose before it stops (0: 6)
	maxDeaths int
	// processor time a row is given (0: probeRowTime)
	rowTime time.Duration
}

func (u probeUnit) rowLimit() time.Duration {
	if u.rowTime > 0 {
		return u.rowTime
	}
	return probeRowTime
}

// ---------------------------------------------------------------------------
// unit 0: Unpack targets of NAMED pointer types (they cannot be built with
// reflect, so the random target generator never makes one)

type intP *int
type strP *string
type objP *struct {
	A int `config:"a"`
	V int `config:"v"`
}
type mapP *map[string]interface{}
type sliceP *[]int
type ifaceP *interface{}
type intPP *intP
type namedInner struct {
	A int `config:"a"`
}
type namedInnerP *namedInner
type cfgP *ucfg.Config

type namedRow struct {
	label string
	mk    func() interface{}
}

var namedPointerRows = []namedRow{
	{"field of type intP (*int)", func() interface{} { return &struct{ A intP }{} }},
	{"field of type intP already pointing to a value", func() interface{} { return &struct{ A intP }{A: new(int)} }},
	{"field of type strP (*string)", func() interface{} { return &struct{ A strP }{} }},
	{"top-level objP (*struct)", func() interface{} { var x objP; return &x }},
	{"top-level objP already set", func() interface{} {
		x := objP(&struct {
			A int `config:"a"`
			V int `config:"v"`
		}{})
		return &x
	}},
	{"field of type objP", func() interface{} { return &struct{ A objP }{} }},
	{"field of type mapP (*map)", func() interface{} { return &struct{ A mapP }{} }},
	{"top-level mapP", func() interface{} { var x mapP; return &x }},
	{"field of type sliceP (*[]int)", func() interface{} { return &struct{ A sliceP }{} }},
	{"field of type ifaceP (*interface{})", func() interface{} { return &struct{ A ifaceP }{} }},
	{"field of type intPP (*intP)", func() interface{} { return &struct{ A intPP }{} }},
	{"field of type *intP", func() interface{} { return &struct{ A *intP }{} }},
	{"field of type namedInnerP (*named struct)", func() interface{} { return &struct{ A namedInnerP }{} }},
	{"map of intP", func() interface{} { return &map[string]intP{} }},
	{"map of objP pre-filled", func() interface{} { return &map[string]objP{"a": nil} }},
	{"slice of intP", func() interface{} { return &[]intP{} }},
	{"slice of objP in a field", func() interface{} { return &struct{ A []objP }{} }},
	{"array of intP", func() interface{} { return &[2]intP{} }},
	{"field of type cfgP (*Config)", func() interface{} { return &struct{ A cfgP }{} }},
	{"inline field of type objP", func() interface{} {
		return &struct {
			A objP `config:",inline"`
		}{}
	}},
}

var namedFixtures = []string{"a-int", "a-object", "a-list", "a-nil", "empty", "a-string"}

func fixtureByName(name string) fixture {
	for _, f := range fixtures {
		if f.name == name {
			return f
		}
	}
	return fixtures[0]
}

var unitNamedPointers = probeUnit{
	name: "named-pointer-targets",
	rows: func() int { return len(namedPointerRows) * len(namedFixtures) },
	label: func(i int) string {
		return namedPointerRows[i/len(namedFixtures)].label + " <- config " + namedFixtures[i%len(namedFixtures)]
	},
	class: func(i int) string { return "Unpack:named-pointer-target" },
	run: func(i int) string {
		row := namedPointerRows[i/len(namedFixtures)]
		f := fixtureByName(namedFixtures[i%len(namedFixtures)])
		c, err := ucfg.NewFrom(f.build())
		if err != nil {
			return "fixture-refused"
		}
		out := "ok"
		for _, opts := range [][]ucfg.Option{nil, {ucfg.PathSep("."), ucfg.AppendValues}} {
			if err := c.Unpack(row.mk(), opts...); err != nil {
				out = "error"
			}
		}
		return out
	},
}

// ---------------------------------------------------------------------------
// unit 1: SetChild with the receiver, an ancestor or a descendant's ancestor as
// the child, then everything that walks the configuration

type cycleRow struct {
	label string
	build func() (root *ucfg.Config, setErrs []error)
}

var cycleRows = []cycleRow{
	{"root.SetChild(a, root)", func() (*ucfg.Config, []error) {
		root := ucfg.New()
		return root, []error{root.SetChild("a", -1, root)}
	}},
	{"root.SetChild(a, x); x.SetChild(b, root)", func() (*ucfg.Config, []error) {
		root, x := ucfg.New(), ucfg.New()
		return root, []error{root.SetChild("a", -1, x), x.SetChild("b", -1, root)}
	}},
	{"x := root.Child(a); x.SetChild(b, root)", func() (*ucfg.Config, []error) {
		root, _ := ucfg.NewFrom(mp{"a": mp{"k": 1}, "v": 2})
		x, err := root.Child("a", -1)
		if err != nil {
			return root, []error{err}
		}
		return root, []error{x.SetChild("b", -1, root)}
	}},
	{"y := root.Child(a.b) (PathSep); y.SetChild(c, root.Child(a))", func() (*ucfg.Config, []error) {
		o := ucfg.PathSep(".")
		root, _ := ucfg.NewFrom(mp{"a": mp{"b": mp{"k": 1}}}, o)
		y, err := root.Child("a.b", -1, o)
		if err != nil {
			return root, []error{err}
		}
		a, _ := root.Child("a", -1, o)
		return root, []error{y.SetChild("c", -1, a, o)}
	}},
	{"root.SetChild(l, 1, root) (list element)", func() (*ucfg.Config, []error) {
		root, _ := ucfg.NewFrom(mp{"l": li{1, 2}})
		return root, []error{root.SetChild("l", 1, root)}
	}},
	{"root list: root.SetChild(\"\", 0, root)", func() (*ucfg.Config, []error) {
		root, _ := ucfg.NewFrom(li{1, 2})
		return root, []error{root.SetChild("", 0, root)}
	}},
	{"three configs in a ring", func() (*ucfg.Config, []error) {
		a, b, c := ucfg.New(), ucfg.New(), ucfg.New()
		return a, []error{a.SetChild("b", -1, b), b.SetChild("c", -1, c), c.SetChild("a", -1, a)}
	}},
	{"root.SetChild(a, root) twice under two names", func() (*ucfg.Config, []error) {
		root, _ := ucfg.NewFrom(mp{"k": 1})
		return root, []error{root.SetChild("a", -1, root), root.SetChild("b", -1, root)}
	}},
	{"no cycle: the same child under two names", func() (*ucfg.Config, []error) {
		root, x := ucfg.New(), ucfg.MustNewFrom(mp{"k": li{1}})
		return root, []error{root.SetChild("a", -1, x), root.SetChild("b", -1, x)}
	}},
}

type walk struct {
	name string
	f    func(c *ucfg.Config)
}

var cycleWalks = []walk{
	{"FlattenedKeys", func(c *ucfg.Config) { c.FlattenedKeys() }},
	{"Path", func(c *ucfg.Config) { c.Path(".") }},
	{"Child(a).Path", func(c *ucfg.Config) {
		if x, err := c.Child("a", -1); err == nil && x != nil {
			x.Path(".")
			x.Parent()
			x.FlattenedKeys()
		}
	}},
	{"Unpack into map", func(c *ucfg.Config) {
		var out map[string]interface{}
		c.Unpack(&out)
	}},
	{"Unpack into slice", func(c *ucfg.Config) {
		var out []interface{}
		c.Unpack(&out)
	}},
	{"Merge(config as source)", func(c *ucfg.Config) { ucfg.New().Merge(c) }},
	{"NewFrom({x: config})", func(c *ucfg.Config) { ucfg.NewFrom(mp{"x": c}) }},
	{"Has(a.a.a.a)", func(c *ucfg.Config) { c.Has("a.a.a.a", -1, ucfg.PathSep(".")) }},
	{"CountField/GetFields", func(c *ucfg.Config) { c.CountField("a"); c.GetFields() }},
	{"String with VarExp", func(c *ucfg.Config) { c.String("a", -1, ucfg.VarExp) }},
	{"SetInt below the child", func(c *ucfg.Config) {
		c.SetInt("a.z", -1, 1, ucfg.PathSep("."))
		c.FlattenedKeys()
	}},
	{"Remove", func(c *ucfg.Config) { c.Remove("a", -1); c.FlattenedKeys() }},
}

var unitSetChildCycles = probeUnit{
	name: "setchild-of-ancestors",
	rows: func() int { return len(cycleRows) * len(cycleWalks) },
	// the construction varies fastest: the first rows cover every construction
	label: func(i int) string {
		return cycleRows[i%len(cycleRows)].label + "; then " + cycleWalks[i/len(cycleRows)].name
	},
	class: func(i int) string { return "walk-after-SetChild-of-receiver-or-ancestor" },
	run: func(i int) string {
		root, errs := cycleRows[i%len(cycleRows)].build()
		out := "linked"
		for _, e := range errs {
			if e != nil {
				out = "refused"
			}
		}
		if root != nil {
			cycleWalks[i/len(cycleRows)].f(root)
		}
		return out
	},
}

// ---------------------------------------------------------------------------
// unit 2: settings that use each other in LAYERS - every setting of a level is
// a splice of references to settings of the next level, so that a setting is
// reached over many routes (2^levels of them). All leaves are empty: the
// values stay empty, only the work can multiply. Evaluating a value once per
// call (cache) makes this linear in the number of settings; bookkeeping that
// follows every route does not return. No hook of the library is passed inside
// such bookkeeping, so the rows run here, under the CPU-time watchdog.

type graphShape struct {
	name  string
	build func(levels int, r *rand.Rand) map[string]interface{}
}

func lv(name string, i int) string  { return fmt.Sprintf("%s%d", name, i) }
func ref(name string, i int) string { return "${" + lv(name, i) + "}" }

var graphShapes = []graphShape{
	{"diamonds-with-spliced-middles", func(n int, r *rand.Rand) map[string]interface{} {
		m := mp{"e": "", lv("a", n): ""}
		for i := 0; i < n; i++ {
			m[lv("a", i)] = ref("b", i) + ref("c", i)
			m[lv("b", i)] = ref("a", i+1) + "${e}"
			m[lv("c", i)] = "${e}" + ref("a", i+1)
		}
		return m
	}},
	{"diamonds-with-plain-middles", func(n int, r *rand.Rand) map[string]interface{} {
		m := mp{lv("a", n): ""}
		for i := 0; i < n; i++ {
			m[lv("a", i)] = ref("b", i) + ref("c", i)
			m[lv("b", i)] = ref("a", i+1)
			m[lv("c", i)] = ref("a", i+1)
		}
		return m
	}},
	{"three-way-fans", func(n int, r *rand.Rand) map[string]interface{} {
		m := mp{"e": "", lv("a", n): ""}
		for i := 0; i < n; i++ {
			m[lv("a", i)] = ref("b", i) + ref("c", i) + ref("d", i)
			for _, x := range []string{"b", "c", "d"} {
				m[lv(x, i)] = "${e}" + ref("a", i+1) + "${e}"
			}
		}
		return m
	}},
	{"diamonds-through-defaults", func(n int, r *rand.Rand) map[string]interface{} {
		m := mp{"e": "", lv("a", n): ""}
		for i := 0; i < n; i++ {
			m[lv("a", i)] = "${" + lv("b", i) + ":" + ref("c", i) + "}" + "${e:+x}"
			m[lv("b", i)] = ref("a", i+1) + "${e}"
			m[lv("c", i)] = "${e:}" + ref("a", i+1)
		}
		return m
	}},
	{"two-wide-ladder", func(n int, r *rand.Rand) map[string]interface{} {
		m := mp{lv("a", n): "", lv("b", n): ""}
		for i := 0; i < n; i++ {
			m[lv("a", i)] = ref("a", i+1) + ref("b", i+1)
			m[lv("b", i)] = ref("b", i+1) + ref("a", i+1)
		}
		return m
	}},
	{"diamonds-inside-objects-and-lists", func(n int, r *rand.Rand) map[string]interface{} {
		m := mp{"e": "", lv("a", n): mp{"p": "", "l": li{""}}}
		for i := 0; i < n; i++ {
			m[lv("a", i)] = mp{"p": ref("b", i) + ref("c", i), "l": li{ref("b", i), ref("c", i)}}
			m[lv("b", i)] = "${" + lv("a", i+1) + ".p}${e}"
			m[lv("c", i)] = "${e}${" + lv("a", i+1) + ".l.0}"
		}
		return m
	}},
	{"random-layered-graph", func(n int, r *rand.Rand) map[string]interface{} {
		names := []string{"a", "b", "c"}
		m := mp{"e": ""}
		for _, x := range names {
			m[lv(x, n)] = ""
		}
		for i := 0; i < n; i++ {
			for _, x := range names {
				var sb strings.Builder
				for j, c := 0, 1+r.Intn(3); j < c; j++ {
					y := names[r.Intn(len(names))]
					switch r.Intn(5) {
					case 0:
						sb.WriteString("${" + lv(y, i+1) + ":" + ref(names[r.Intn(3)], i+1) + "}")
					case 1:
						sb.WriteString("${e}" + ref(y, i+1))
					default:
						sb.WriteString(ref(y, i+1))
					}
				}
				m[lv(x, i)] = sb.String()
			}
		}
		return m
	}},
}

var graphLevels = []int{4, 12, 24, 40, 64}

var unitReferenceGraphs = probeUnit{
	name: "layered-reference-graphs",
	rows: func() int { return len(graphShapes) * len(graphLevels) },
	// the shape varies fastest: the first rows cover every shape
	label: func(i int) string {
		return fmt.Sprintf("%s, %d levels; String(a0), Unpack, FlattenedKeys", graphShapes[i%len(graphShapes)].name, graphLevels[i/len(graphShapes)])
	},
	class: func(i int) string { return "read-of-layered-reference-graph" },
	run: func(i int) string {
		sh, n := graphShapes[i%len(graphShapes)], graphLevels[i/len(graphShapes)]
		opts := []ucfg.Option{ucfg.VarExp, ucfg.PathSep(".")}
		c, err := ucfg.NewFrom(sh.build(n, rand.New(rand.NewSource(int64(i)))), opts...)
		if err != nil {
			return "refused"
		}
		out := "read"
		if _, err := c.String("a0", -1, opts...); err != nil {
			out = "read-error"
		}
		var to map[string]interface{}
		if err := c.Unpack(&to, opts...); err != nil {
			out = "read-error"
		}
		c.FlattenedKeys(opts...)
		c.Has("a0", -1, opts...)
		// a second read of the same configuration
		c.String("a0", -1, opts...)
		return out
	},
}

// ---------------------------------------------------------------------------
// unit 3: target struct types that INLINE a pointer to themselves, directly or
// through other types (such types can not be built with reflect)

type selfInline struct {
	A    int         `config:"a"`
	Next *selfInline `config:",inline"`
}

type selfInlineA struct {
	A int          `config:"a"`
	B *selfInlineB `config:",inline"`
}
type selfInlineB struct {
	V int          `config:"v"`
	A *selfInlineA `config:",inline"`
}

type selfInline3A struct {
	A int           `config:"a"`
	B *selfInline3B `config:",inline"`
}
type selfInline3B struct {
	C *selfInline3C `config:",inline"`
}
type selfInline3C struct {
	X int           `config:"x"`
	A *selfInline3A `config:",inline"`
}

type selfEmbedded struct {
	A             int `config:"a"`
	*selfEmbedded `config:",inline"`
}

type selfInlineAndNamed struct {
	A      int                 `config:"a"`
	Inline *selfInlineAndNamed `config:",inline"`
	Next   *selfInlineAndNamed `config:"next"`
}

type selfInlineMap struct {
	A    int                       `config:"a"`
	Rest map[string]*selfInlineMap `config:",inline"`
}

type selfInlineIface struct {
	A    int         `config:"a"`
	Next interface{} `config:",inline"`
}

type selfInlineValidated struct {
	A    int                  `config:"a" validate:"min=0"`
	Next *selfInlineValidated `config:",inline" validate:"required"`
}

var selfInlineRows = []namedRow{
	{"struct inlining a pointer to itself", func() interface{} { return &selfInline{} }},
	{"... with the pointer set", func() interface{} { return &selfInline{Next: &selfInline{A: 1}} }},
	{"two types inlining pointers to each other", func() interface{} { return &selfInlineA{} }},
	{"... with the pointers set", func() interface{} { return &selfInlineA{B: &selfInlineB{A: &selfInlineA{}}} }},
	{"three types in a ring of inline pointers", func() interface{} { return &selfInline3A{} }},
	{"struct embedding a pointer to itself, inline", func() interface{} { return &selfEmbedded{} }},
	{"inline and named pointer to itself", func() interface{} { return &selfInlineAndNamed{} }},
	{"inline map of pointers to itself", func() interface{} { return &selfInlineMap{} }},
	{"inline interface holding a pointer to another value of the type", func() interface{} { return &selfInlineIface{Next: &selfInlineIface{}} }},
	{"self-inlining type with validators", func() interface{} { return &selfInlineValidated{} }},
	{"map of self-inlining structs", func() interface{} { return &map[string]selfInline{} }},
	{"slice of pointers to self-inlining structs", func() interface{} { return &[]*selfInlineA{} }},
	{"field of a self-inlining type", func() interface{} { return &struct{ A selfInline3A }{} }},
}

var selfInlineFixtures = []string{"empty", "a-int", "a-object", "deep", "a-list", "references-to-ancestors"}

var unitSelfInline = probeUnit{
	name: "self-inlining-target-types",
	rows: func() int { return len(selfInlineRows) * len(selfInlineFixtures) },
	label: func(i int) string {
		return selfInlineRows[i%len(selfInlineRows)].label + " <- config " + selfInlineFixtures[i/len(selfInlineRows)]
	},
	class: func(i int) string { return "Unpack:self-inlining-target-type" },
	run: func(i int) string {
		row := selfInlineRows[i%len(selfInlineRows)]
		f := fixtureByName(selfInlineFixtures[i/len(selfInlineRows)])
		var base []ucfg.Option
		if f.varexp {
			base = []ucfg.Option{ucfg.VarExp}
		}
		c, err := ucfg.NewFrom(f.build(), base...)
		if err != nil {
			return "fixture-refused"
		}
		out := "ok"
		for _, opts := range [][]ucfg.Option{nil, {ucfg.PathSep("."), ucfg.AppendValues}, {ucfg.ReplaceValues}} {
			if err := c.Unpack(row.mk(), append(append([]ucfg.Option{}, base...), opts...)...); err != nil {
				out = "error"
			}
		}
		// the type as a Merge source as well
		if _, err := ucfg.NewFrom(row.mk()); err != nil {
			out = "error"
		}
		return out
	},
}

var probeUnits = []probeUnit{unitNamedPointers, unitSetChildCycles, unitReferenceGraphs, unitSelfInline, unitCyclicInputs, unitCyclicTargets}

// ---------------------------------------------------------------------------
// probe side

// cpuTime: processor time consumed by this process - a row is given
// probeRowTime of it, whatever the load of the machine
func cpuTime() time.Duration {
	var ru syscall.Rusage
	if syscall.Getrusage(syscall.RUSAGE_SELF, &ru) != nil {
		return 0
	}
	return time.Duration(ru.Utime.Nano() + ru.Stime.Nano())
}

func unitChild(unitArg, startArg string) {
	debug.SetMaxStack(64 << 20) // as in the workers
	lim := syscall.Rlimit{Cur: 4 << 30, Max: 4 << 30}
	syscall.Setrlimit(syscall.RLIMIT_AS, &lim)
	ui, _ := strconv.Atoi(unitArg)
	start, _ := strconv.Atoi(startArg)
	u := probeUnits[ui]
	var rowStart time.Time
	var rowCPU time.Duration
	row := -1
	go func() {
		for {
			time.Sleep(5 * time.Millisecond)
			var ms runtime.MemStats
			runtime.ReadMemStats(&ms)
			if ms.HeapAlloc > probeHeapLimit {
				fmt.Printf("WATCHDOG heap %d %d MB after %v\n", row, ms.HeapAlloc>>20, time.Since(rowStart).Round(time.Millisecond))
				os.Exit(3)
			}
			if row >= 0 && (cpuTime()-rowCPU > u.rowLimit() || time.Since(rowStart) > 10*u.rowLimit()) {
				fmt.Printf("WATCHDOG time %d %d MB after %v\n", row, ms.HeapAlloc>>20, time.Since(rowStart).Round(time.Millisecond))
				os.Exit(4)
			}
		}
	}()
	for i := start; i < u.rows(); i++ {
		fmt.Printf("START %d\n", i)
		rowStart = time.Now()
		rowCPU = cpuTime()
		row = i
		func() {
			defer func() {
				if rec := recover(); rec != nil {
					msg := fmt.Sprint(rec)
					if len(msg) > 200 {
						msg = msg[:200]
					}
					fmt.Printf("PANIC %d %s\n%s\nENDPANIC\n", i, strings.ReplaceAll(msg, "\n", " "), debug.Stack())
				}
			}()
			out := u.run(i)
			fmt.Printf("DONE %d %s cpu=%v\n", i, out, (cpuTime() - rowCPU).Round(time.Millisecond))
		}()
	}
	fmt.Println("END")
	os.Exit(0)
}

// ---------------------------------------------------------------------------
// case side

func runProbeUnit(m *mon, r *rand.Rand, seed int64, tier string, k int) {
	res := m.res
	u := probeUnits[k]
	res.SetAdd("m_unit", u.name)
	res.SetAdd("input_class", "probe-unit/"+u.name)
	exe, err := os.Executable()
	if err != nil {
		res.Violate("check-defect:probe-did-not-run", "os.Executable: %v", err)
		return
	}
	total := u.rows()
	// quick: a unit whose every row ends the probe must still end
	maxProbes := 6
	if u.maxDeaths > 0 {
		maxProbes = u.maxDeaths
	}
	if tier == "thorough" {
		maxProbes = total + 1
	}
	start := 0
	for probes := 0; start < total; probes++ {
		if probes >= maxProbes {
			res.Ev("m_rows_not_run_after_many_probe_deaths", int64(total-start))
			break
		}
		ctx, cancel := context.WithTimeout(context.Background(), time.Duration(total-start)*10*probeRowTime+10*time.Second)
		cmd := exec.CommandContext(ctx, exe, "c07-unit-probe")
		cmd.Env = append(os.Environ(), fmt.Sprintf("%s=U,%d,%d", deepEnv, k, start))
		cmd.SysProcAttr = &syscall.SysProcAttr{Pdeathsig: syscall.SIGKILL}
		var so, se bytes.Buffer
		cmd.Stdout, cmd.Stderr = &so, &se
		runErr := cmd.Run()
		timedOut := ctx.Err() == context.DeadlineExceeded
		cancel()
		res.Ev("m_probe_processes", 1)
		last, ended := -1, false
		done := map[int]string{}
		var watchdog string
		lines := strings.Split(so.String(), "\n")
		for i := 0; i < len(lines); i++ {
			f := strings.Fields(lines[i])
			switch {
			case len(f) >= 2 && f[0] == "START":
				last, _ = strconv.Atoi(f[1])
			case len(f) >= 3 && f[0] == "DONE":
				n, _ := strconv.Atoi(f[1])
				done[n] = f[2]
				res.Ev("m_rows_returned", 1)
				res.SetAdd("m_outcome", u.name+"/"+f[2])
				res.Eval(1)
				res.Key("M|" + u.name + "|" + u.label(n))
			case len(f) >= 2 && f[0] == "PANIC":
				n, _ := strconv.Atoi(f[1])
				var b []string
				for ; i < len(lines) && lines[i] != "ENDPANIC"; i++ {
					b = append(b, lines[i])
				}
				p := strings.Join(b, "\n")
				pkg, fns := recursionOwner(p)
				res.Ev("panics", 1)
				res.Violate(u.class(n)+":panic:in-"+pkg, "%s panicked in the probe process: %s (%s); input: %s", u.name, b[0], strings.Join(fns, " < "), u.label(n))
				done[n] = "panic"
			case len(f) >= 2 && f[0] == "WATCHDOG":
				watchdog = lines[i]
			case len(f) == 1 && f[0] == "END":
				ended = true
			}
		}
		if ended {
			break
		}
		if last < 0 {
			res.Violate("check-defect:probe-did-not-run", "the probe process for unit %s did not run: %v; stderr: %s", u.name, runErr, short(se.String()))
			return
		}
		if _, ok := done[last]; ok {
			// the probe ended between two rows: should not happen
			res.Violate("check-defect:probe-ended-between-rows", "unit %s after row %d: %v; stderr: %s", u.name, last, runErr, short(se.String()))
			return
		}
		res.Ev("m_probe_deaths", 1)
		res.Key("M|" + u.name + "|" + u.label(last))
		switch {
		case strings.HasPrefix(watchdog, "WATCHDOG heap"):
			res.Violate("no-return:unbounded-allocation:"+u.class(last), "the call did not return and the heap of the probe process passed %d MB (%s); input: %s", probeHeapLimit>>20, watchdog, u.label(last))
		case strings.HasPrefix(watchdog, "WATCHDOG time") || timedOut:
			res.Violate("hang:"+u.class(last), "the call did not return within %v of processor time (%s); input: %s", u.rowLimit(), watchdog, u.label(last))
		default:
			class := deathClass(se.String())
			pkg, fns := recursionOwner(se.String())
			first := se.String()
			if i := strings.Index(first, "\n\n"); i > 0 {
				first = first[:i]
			}
			res.Violate("fatal:"+class+":"+u.class(last), "the probe process died (%s, 64 MiB stack cap as in the workers; innermost frames in %s: %s); input: %s; runtime report: %s",
				class, pkg, strings.Join(fns, " < "), u.label(last), short(strings.ReplaceAll(first, "\n", " | ")))
		}
		start = last + 1
	}
}
