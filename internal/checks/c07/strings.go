package c07

import (
	"fmt"
	"math/rand"
	"os"

	ucfg "github.com/elastic/go-ucfg"
	uflag "github.com/elastic/go-ucfg/flag"
	"github.com/elastic/go-ucfg/parse"
)

// workload (a): exhaustive short strings

const (
	parseAlpha  = "[]{}\"',:\\a1 "
	spliceAlpha = "${}:+?a.0-"

	parseChunk  = 512
	spliceChunk = 256

	envName = "C07_ENV_VALUE"
)

var parseConfigs = func() []parse.Config {
	var out []parse.Config
	for m := 0; m < 32; m++ {
		out = append(out, parse.Config{Array: m&1 != 0, Object: m&2 != 0, StringDQuote: m&4 != 0, StringSQuote: m&8 != 0, IgnoreCommas: m&16 != 0})
	}
	return out
}()

func legalParseConfig(c parse.Config) bool { return c.Array || !c.Object }

func runParseExhaustive(m *mon, r *rand.Rand, seed int64, tier string, k int) {
	maxLen := 3
	if tier == "thorough" {
		maxLen = 5
	}
	total := countStrings(len(parseAlpha), maxLen)
	var strs []string
	for i := k * parseChunk; i < (k+1)*parseChunk && i < total; i++ {
		strs = append(strs, nthString(parseAlpha, i))
	}
	m.res.Ev(fmt.Sprintf("a_parse_strings_exhaustive_len<=%d", maxLen), int64(len(strs)))
	runParseStrings(m, strs)
}

func runParseSampled(m *mon, r *rand.Rand, seed int64, tier string, k int) {
	lo := countStrings(len(parseAlpha), 3)
	hi := countStrings(len(parseAlpha), 5)
	var strs []string
	for i := 0; i < 256; i++ {
		strs = append(strs, nthString(parseAlpha, lo+r.Intn(hi-lo)))
	}
	m.res.Ev("a_parse_strings_sampled_len4-5", int64(len(strs)))
	runParseStrings(m, strs)
}

func kindOf(v interface{}, err error) string {
	if err != nil {
		return "error"
	}
	switch v.(type) {
	case nil:
		return "nil"
	case bool:
		return "bool"
	case int64:
		return "int64"
	case uint64:
		return "uint64"
	case float64:
		return "float64"
	case string:
		return "string"
	case []interface{}:
		return "list"
	case map[string]interface{}:
		return "object"
	}
	return fmt.Sprintf("%T", v)
}

func runParseStrings(m *mon, strs []string) {
	res := m.res
	for _, e := range []string{"parse.Value", "parse.ValueWithConfig", "flag.FlagValue.Set", "flag.FlagValue.String", "NewFrom", "String+ResolveEnv", "Unpack+ResolveEnv"} {
		res.SetAdd("entry_point", e)
	}
	defer os.Unsetenv(envName)
	for i, s := range strs {
		s := s
		if s != "" {
			res.Key("P|" + s)
		}
		res.SetAdd("input_class", fmt.Sprintf("parse-string/len=%d", len(s)))
		m.do(call{entry: "parse.Value", desc: func() string { return short(s) }}, func() {
			v, err := parse.Value(s)
			res.SetAdd("parse_result_kind", kindOf(v, err))
		})
		for _, cfg := range parseConfigs {
			cfg := cfg
			var v interface{}
			var err error
			m.do(call{entry: "parse.ValueWithConfig", desc: func() string { return fmt.Sprintf("%s under %+v", short(s), cfg) }}, func() {
				v, err = parse.ValueWithConfig(s, cfg)
			})
			if legalParseConfig(cfg) {
				res.Ev("parse_calls_legal_config", 1)
			} else {
				res.Ev("parse_calls_illegal_config", 1)
				if err == nil {
					res.Ev("illegal_parse_config_accepted", 1) // not judged here
				}
			}
			_ = v
		}
		// flag values: key=value and a bare argument
		autoBool := i%2 == 0
		var fv *uflag.FlagValue
		m.do(call{entry: "flag.NewFlagKeyValue", desc: func() string { return "" }}, func() {
			fv = uflag.NewFlagKeyValue(ucfg.New(), autoBool, ucfg.PathSep("."))
		})
		if fv != nil {
			m.do(call{entry: "flag.FlagValue.Set", bound: defaultMaxIdx + 1 + len(s), desc: func() string { return short("k=" + s) }}, func() { fv.Set("k=" + s) })
			m.do(call{entry: "flag.FlagValue.Set", bound: defaultMaxIdx + 1 + len(s), desc: func() string { return fmt.Sprintf("%s autoBool=%v", short(s), autoBool) }}, func() { fv.Set(s) })
			m.do(call{entry: "flag.FlagValue.String", desc: func() string { return fmt.Sprintf("after Set(%s), Set(%s)", short("k="+s), short(s)) }}, func() { _ = fv.String() })
		}
		// environment value
		os.Setenv(envName, s)
		opts := []ucfg.Option{ucfg.VarExp, ucfg.ResolveEnv}
		var c *ucfg.Config
		m.do(call{entry: "NewFrom", desc: func() string { return "{r: ${" + envName + "}}" }}, func() {
			c, _ = ucfg.NewFrom(map[string]interface{}{"r": "${" + envName + "}"}, opts...)
		})
		if c != nil {
			d := func() string { return fmt.Sprintf("{r: ${%s}} with %s=%s", envName, envName, short(s)) }
			m.do(call{entry: "String+ResolveEnv", desc: d}, func() { c.String("r", -1, opts...) })
			m.do(call{entry: "Unpack+ResolveEnv", desc: d}, func() {
				var out map[string]interface{}
				c.Unpack(&out, opts...)
			})
		}
	}
}

// ---------------------------------------------------------------------------
// splice strings

type echo struct {
	text string
	cfg  parse.Config
	err  error
}

var echoes = []echo{
	{"{", parse.DefaultConfig, nil},
	{"[1,", parse.DefaultConfig, nil},
	{"${a}", parse.NoopConfig, nil},
	{"[", parse.EnvConfig, nil},
	{"{", parse.EnvConfig, nil},
	{"[1,", parse.NoopConfig, nil},
	{"}", parse.DefaultConfig, nil},
	{"]", parse.DefaultConfig, nil},
	{"{a:", parse.DefaultConfig, nil},
	{"'", parse.DefaultConfig, nil},
	{"\"", parse.DefaultConfig, nil},
	{"\"\\", parse.EnvConfig, nil},
	{"a,b", parse.DefaultConfig, nil},
	{"[1,2]", parse.DefaultConfig, nil},
	{"{a:1}", parse.DefaultConfig, nil},
	{"{a:{a:[{}]}}", parse.DefaultConfig, nil},
	{"${", parse.DefaultConfig, nil},
	{"${r}", parse.DefaultConfig, nil},
	{",", parse.DefaultConfig, nil},
	{" ", parse.DefaultConfig, nil},
	{"", parse.DefaultConfig, nil},
	{"r", parse.DefaultConfig, nil},
	{"l.5000", parse.DefaultConfig, nil},
	{"{5000:1}", parse.DefaultConfig, nil},
	{"x", parse.Config{Object: true}, nil}, // illegal parse config handed back by a resolver
	{"", parse.DefaultConfig, ucfg.ErrMissing},
	{"", parse.DefaultConfig, fmt.Errorf("resolver failed")},
}

func runSpliceExhaustive(m *mon, r *rand.Rand, seed int64, tier string, k int) {
	maxLen := 3
	if tier == "thorough" {
		maxLen = 6
	}
	total := countStrings(len(spliceAlpha), maxLen)
	var strs []string
	for i := k * spliceChunk; i < (k+1)*spliceChunk && i < total; i++ {
		strs = append(strs, nthString(spliceAlpha, i))
	}
	m.res.Ev(fmt.Sprintf("a_splice_strings_exhaustive_len<=%d", maxLen), int64(len(strs)))
	runSpliceStrings(m, strs)
}

func runSpliceSampled(m *mon, r *rand.Rand, seed int64, tier string, k int) {
	lo := countStrings(len(spliceAlpha), 3)
	hi := countStrings(len(spliceAlpha), 6)
	var strs []string
	for i := 0; i < 200; i++ {
		strs = append(strs, nthString(spliceAlpha, lo+r.Intn(hi-lo)))
	}
	// a sampled string rarely holds a complete reference: splice some in
	names := []string{"a", "aa", "0", "a.a", "l.0", "r", "-", "a-", ".", ""}
	ops := []string{"", ":", ":+", ":?", ":a", ":${a}", ":+${aa}"}
	for i := 0; i < 56; i++ {
		s := "${" + names[r.Intn(len(names))] + ops[r.Intn(len(ops))] + "}"
		switch r.Intn(4) {
		case 0:
			s = nthString(spliceAlpha, r.Intn(lo)) + s
		case 1:
			s = s + nthString(spliceAlpha, r.Intn(lo))
		case 2:
			s = "${" + s + "}"
		}
		strs = append(strs, s)
	}
	// several expansions in one string, each of them complete, malformed
	// (empty name) or cut short: what the parser leaves unread behind the first
	// one it rejects
	multi := 0
	for i := 0; i < 96; i++ {
		s := ""
		for p, n := 0, 2+r.Intn(2); p < n; p++ {
			switch r.Intn(4) {
			case 0, 1:
				s += "${" + names[r.Intn(len(names))] + ops[r.Intn(len(ops))] + "}"
			case 2:
				s += nthString(spliceAlpha, r.Intn(lo))
			default:
				s += "x "
			}
		}
		strs = append(strs, s)
		multi++
	}
	m.res.Ev("a_splice_strings_of_several_expansions", int64(multi))
	m.res.Ev("a_splice_strings_sampled", int64(len(strs)))
	runSpliceStrings(m, strs)
}

func runSpliceStrings(m *mon, strs []string) {
	res := m.res
	base := []ucfg.Option{ucfg.PathSep("."), ucfg.VarExp}
	for _, s := range strs {
		s := s
		if s != "" {
			res.Key("S|" + s)
		}
		res.SetAdd("input_class", fmt.Sprintf("varexp-setting/len=%d", len(s)))
		var c *ucfg.Config
		var err error
		m.do(call{entry: "NewFrom", desc: func() string { return "{a:x, r:" + short(s) + ", l:[1,2]} PathSep VarExp" }}, func() {
			c, err = ucfg.NewFrom(map[string]interface{}{"a": "x", "r": s, "l": []int{1, 2}}, base...)
		})
		res.SetAdd("entry_point", "NewFrom")
		if err != nil || c == nil {
			res.Ev("splice_rejected_at_build", 1)
			continue
		}
		res.Ev("splice_built", 1)
		spliceReads(m, c, s, base, "no resolver")
		invoked := false
		for ei, e := range echoes {
			e := e
			opts := append(append([]ucfg.Option{}, base...), ucfg.Resolve(func(name string) (string, parse.Config, error) {
				invoked = true
				return e.text, e.cfg, e.err
			}))
			spliceReads(m, c, s, opts, fmt.Sprintf("resolver echoing %q under %+v err=%v", e.text, e.cfg, e.err))
			if ei == 0 && !invoked {
				break // the setting never consults a resolver: the other echoes cannot matter
			}
		}
		if invoked {
			res.Ev("splice_consulted_resolver", 1)
			res.Key("S+R|" + s)
		}
	}
}

func spliceReads(m *mon, c *ucfg.Config, s string, opts []ucfg.Option, how string) {
	d := func() string { return "{a:x, r:" + short(s) + ", l:[1,2]} PathSep VarExp, " + how }
	m.do(call{entry: "String", class: "", desc: d}, func() {
		_, err := c.String("r", -1, opts...)
		if err != nil {
			m.res.Ev("splice_read_errors", 1)
		} else {
			m.res.Ev("splice_read_values", 1)
		}
	})
	m.do(call{entry: "Unpack", desc: d}, func() {
		var out map[string]interface{}
		c.Unpack(&out, opts...)
	})
	m.do(call{entry: "Has", desc: d}, func() { c.Has("r", -1, opts...) })
	m.do(call{entry: "CountField", desc: d}, func() { c.CountField("r", opts...) })
	m.do(call{entry: "FlattenedKeys", desc: d}, func() { c.FlattenedKeys(opts...) })
	m.do(call{entry: "Child", desc: d}, func() { c.Child("r", -1, opts...) })
	for _, e := range []string{"String", "Unpack", "Has", "CountField", "FlattenedKeys", "Child"} {
		m.res.SetAdd("entry_point", e)
	}
}
