package c07

import (
	"bytes"
	"context"
	"fmt"
	"math/rand"
	"os"
	"os/exec"
	"runtime/debug"
	"strconv"
	"strings"
	"syscall"
	"time"

	ucfg "github.com/elastic/go-ucfg"
	uflag "github.com/elastic/go-ucfg/flag"
	uhjson "github.com/elastic/go-ucfg/hjson"
	ujson "github.com/elastic/go-ucfg/json"
	"github.com/elastic/go-ucfg/parse"
	uyaml "github.com/elastic/go-ucfg/yaml"
)

// workload (h): nesting depth far beyond what any stack holds.
//
// A stack overflow is a fatal error: it cannot be recovered, it kills the
// process. The supervisor would attribute such a death to the journalled case
// as "fatal:stack-overflow", which says neither which recursion ran away nor
// on what kind of input. So the deep inputs are executed in a PROBE PROCESS of
// their own (this binary started again with deepEnv set; init below takes
// over before main runs), under the same 64 MiB stack cap as the workers. The
// probe reports every depth it starts and finishes on stdout; if it dies, the
// case reads the Go runtime's report from its stderr and signs the violation
//
//	fatal:<stack-overflow|out-of-memory|...>:deep-nesting:<kind of text>:in-<package that recurses>
//
// where the package is read off the innermost frames of the dying goroutine
// (go-ucfg/parse, go-ucfg, hjson-go, yaml.v2, encoding/json). A probe that
// uses more than deepTimeout of processor time is signed hang:deep-nesting:<kind of text>.

const (
	deepEnv     = "VERIF_C07_DEEP_PROBE"
	deepTimeout = 15 * time.Second
	deepEnvVar  = "C07_DEEP_ENV_VALUE"
)

func init() {
	spec := os.Getenv(deepEnv)
	if spec == "" {
		return
	}
	os.Unsetenv(deepEnv)
	// not on this goroutine: during init the main goroutine is locked to its
	// thread, every hand-over to the lexer goroutine would cost a futex call
	go deepChild(spec) // ends the process
	select {}
}

// deepDepths: ascending; the in-process workloads stop at 10^4.
var deepDepths = []int{1000, 10000, 100000, 300000, 1 << 20, 1 << 21, 3 << 20}

var deepDepthsQuick = []int{1000, 100000, 1 << 20, 3 << 20}

func deepDepthsFor(tier, family string) []int {
	switch family {
	case "varexp-expression":
		// every level costs a few tokens sent to the parser: smaller steps
		if tier == "thorough" {
			return []int{1000, 30000, 300000, 1 << 20}
		}
		return []int{1000, 30000, 300000}
	case "path-segments":
		if tier == "thorough" {
			return []int{1000, 100000, 1 << 20, 3 << 20}
		}
		return []int{1000, 100000, 1 << 20}
	}
	if tier == "thorough" {
		return deepDepths
	}
	return deepDepthsQuick
}

type deepShape struct {
	name  string
	build func(n int) string
}

func nest(s string, n int) string { return strings.Repeat(s, n) }

// shapes for the flag-value syntax of go-ucfg/parse
var deepParseShapes = []deepShape{
	{"open-lists", func(n int) string { return nest("[", n) }},
	{"closed-lists", func(n int) string { return nest("[", n) + nest("]", n) }},
	{"open-objects", func(n int) string { return nest("{a:", n) }},
	{"closed-objects", func(n int) string { return nest("{a:", n) + "1" + nest("}", n) }},
	{"open-mixed", func(n int) string { return nest("[{a:", n/2) }},
	{"closed-mixed-spaced", func(n int) string { return nest(" [ {a: ", n/2) + "1" + nest(" } ] ", n/2) }},
}

// shapes for the document loaders
var deepDocShapes = []deepShape{
	{"open-lists", func(n int) string { return nest("[", n) }},
	{"closed-lists", func(n int) string { return nest("[", n) + nest("]", n) }},
	{"open-objects", func(n int) string { return nest(`{"a":`, n) }},
	{"closed-objects", func(n int) string { return nest(`{"a":`, n) + "1" + nest("}", n) }},
	{"open-objects-unquoted", func(n int) string { return nest("{a:", n) }},
	{"open-mixed", func(n int) string { return nest(`[{"a":`, n/2) }},
	{"block-sequences", func(n int) string { return nest("- ", n) + "x" }},
	{"closed-lists-then-reference", func(n int) string { return nest("[", n) + `"${a}"` + nest("]", n) }},
}

type deepRoute struct {
	name   string
	shapes []deepShape
	call   func(s string) string // returns a word describing the outcome
}

// family: what kind of text the route reads (part of the signature: the
// same recursion reached from a flag value and from an HJSON document are
// two findings with two remedies)
func (rt deepRoute) family() string {
	switch {
	case strings.HasPrefix(rt.name, "yaml."):
		return "yaml-document"
	case strings.HasPrefix(rt.name, "json."):
		return "json-document"
	case strings.HasPrefix(rt.name, "hjson."):
		return "hjson-document"
	case strings.HasPrefix(rt.name, "VarExp "):
		return "varexp-expression"
	case strings.HasPrefix(rt.name, "path "):
		return "path-segments"
	}
	return "flag-value-syntax"
}

func outcome(v interface{}, err error) string {
	if err != nil {
		return "error"
	}
	return "value"
}

func parseRoute(name string, cfg parse.Config) deepRoute {
	return deepRoute{name, deepParseShapes, func(s string) string { return outcome(parse.ValueWithConfig(s, cfg)) }}
}

func loaderRoute(name string, f func([]byte, ...ucfg.Option) (*ucfg.Config, error), opts ...ucfg.Option) deepRoute {
	return deepRoute{name, deepDocShapes, func(s string) string {
		c, err := f([]byte(s), opts...)
		if err != nil || c == nil {
			return "error"
		}
		// whatever loaded is read as well (go-ucfg's own recursions)
		var out interface{}
		if c.IsArray() {
			var l []interface{}
			err = c.Unpack(&l, opts...)
			out = l
		} else {
			var mm map[string]interface{}
			err = c.Unpack(&mm, opts...)
			out = mm
		}
		_ = out
		if len(s) <= 12000 {
			// builds every path by concatenation: quadratic in the depth by
			// nature, left to the in-process workloads beyond this size
			c.FlattenedKeys(opts...)
		}
		if _, e2 := ucfg.NewFrom(c, opts...); e2 != nil && err == nil {
			err = e2
		}
		if err != nil {
			return "loaded-read-error"
		}
		return "loaded-read"
	}}
}

// ${...} nested n deep in one string stored under VarExp
var deepExprShapes = []deepShape{
	{"nested-references", func(n int) string { return nest("${", n) + "a" + nest("}", n) }},
	{"nested-defaults", func(n int) string { return nest("${x:", n) + "d" + nest("}", n) }},
	{"nested-alternatives", func(n int) string { return nest("${a:+", n) + "d" + nest("}", n) }},
	{"open-expansions", func(n int) string { return nest("${", n) }},
}

// names of n path segments
var deepPathShapes = []deepShape{
	{"name-segments", func(n int) string { return nest("a.", n) + "a" }},
	{"index-segments", func(n int) string { return nest("0.", n) + "0" }},
	{"mixed-segments", func(n int) string { return nest("a.0.", n/2) + "a" }},
}

func readLoaded(c *ucfg.Config, size int, opts ...ucfg.Option) string {
	var out map[string]interface{}
	err := c.Unpack(&out, opts...)
	if size <= 12000 {
		c.FlattenedKeys(opts...) // builds every path by concatenation, see loaderRoute
	}
	if _, e2 := ucfg.NewFrom(c, opts...); e2 != nil && err == nil {
		err = e2
	}
	if err != nil {
		return "built-read-error"
	}
	return "built-read"
}

// appended to deepRoutes (the indices of the earlier routes stay)
var deepRoutesR4 = []deepRoute{
	{"VarExp setting read with String and Unpack", deepExprShapes, func(s string) string {
		opts := []ucfg.Option{ucfg.VarExp, ucfg.PathSep(".")}
		c, err := ucfg.NewFrom(map[string]interface{}{"a": "a", "s": s}, opts...)
		if err != nil {
			return "error"
		}
		_, err = c.String("s", -1, opts...)
		var out map[string]interface{}
		if e2 := c.Unpack(&out, opts...); e2 != nil && err == nil {
			err = e2
		}
		if err != nil {
			return "built-read-error"
		}
		return "built-read"
	}},
	{"VarExp setting in a JSON document", deepExprShapes, func(s string) string {
		opts := []ucfg.Option{ucfg.VarExp, ucfg.PathSep(".")}
		c, err := ujson.NewConfig([]byte(`{"a":"a","s":"`+s+`"}`), opts...)
		if err != nil {
			return "error"
		}
		return readLoaded(c, len(s), opts...)
	}},
	{"path as key of a map given to NewFrom(PathSep)", deepPathShapes, func(s string) string {
		c, err := ucfg.NewFrom(map[string]interface{}{s: 1}, ucfg.PathSep("."))
		if err != nil {
			return "error"
		}
		return readLoaded(c, len(s), ucfg.PathSep("."))
	}},
	{"path as key in a JSON document (PathSep)", deepPathShapes, func(s string) string {
		c, err := ujson.NewConfig([]byte(`{"`+s+`":1}`), ucfg.PathSep("."))
		if err != nil {
			return "error"
		}
		return readLoaded(c, len(s), ucfg.PathSep("."))
	}},
	{"path as name argument of SetInt/Int/Has/Child/Remove", deepPathShapes, func(s string) string {
		o := ucfg.PathSep(".")
		c := ucfg.New()
		if err := c.SetInt(s, -1, 1, o); err != nil {
			return "error"
		}
		c.Int(s, -1, o)
		c.Has(s, -1, o)
		c.Child(s, -1, o)
		out := readLoaded(c, len(s), o)
		c.Remove(s, -1, o)
		return out
	}},
	{"path in a ${reference} and a flag name", deepPathShapes, func(s string) string {
		opts := []ucfg.Option{ucfg.VarExp, ucfg.PathSep(".")}
		c, err := ucfg.NewFrom(map[string]interface{}{"s": "${" + s + "}", "d": "${" + s + ":x}"}, opts...)
		if err == nil {
			c.String("s", -1, opts...)
			c.String("d", -1, opts...)
		}
		fv := uflag.NewFlagKeyValue(ucfg.New(), true, ucfg.PathSep("."))
		if e2 := fv.Set(s + "=1"); e2 != nil || err != nil {
			return "error"
		}
		return "value"
	}},
}

var deepRoutes = append(append([]deepRoute{}, deepRoutesBase...), deepRoutesR4...)

// order: the routes with a recursion of their own first (the supervisor stops
// a batch after five violating cases)
var deepRoutesBase = []deepRoute{
	{"parse.Value", deepParseShapes, func(s string) string { return outcome(parse.Value(s)) }},
	loaderRoute("hjson.NewConfig", uhjson.NewConfig),
	{"flag.FlagValue.Set(k=<value>)", deepParseShapes, func(s string) string {
		fv := uflag.NewFlagKeyValue(ucfg.New(), true, ucfg.PathSep("."))
		if err := fv.Set("k=" + s); err != nil {
			return "error"
		}
		_ = fv.String()
		return "value"
	}},
	loaderRoute("yaml.NewConfig", uyaml.NewConfig),
	loaderRoute("json.NewConfig", ujson.NewConfig),
	{"${ENV} value read with ResolveEnv", deepParseShapes, func(s string) string {
		os.Setenv(deepEnvVar, s)
		defer os.Unsetenv(deepEnvVar)
		opts := []ucfg.Option{ucfg.VarExp, ucfg.ResolveEnv}
		c, err := ucfg.NewFrom(map[string]interface{}{"r": "${" + deepEnvVar + "}"}, opts...)
		if err != nil {
			return "error"
		}
		var out map[string]interface{}
		return outcome(nil, c.Unpack(&out, opts...))
	}},
	{"resolver answer under parse.DefaultConfig", deepParseShapes, func(s string) string {
		opts := []ucfg.Option{ucfg.VarExp, ucfg.Resolve(func(string) (string, parse.Config, error) { return s, parse.DefaultConfig, nil })}
		c, err := ucfg.NewFrom(map[string]interface{}{"r": "${x}"}, opts...)
		if err != nil {
			return "error"
		}
		var out map[string]interface{}
		return outcome(nil, c.Unpack(&out, opts...))
	}},
	loaderRoute("hjson.NewConfig(PathSep,VarExp)", uhjson.NewConfig, ucfg.PathSep("."), ucfg.VarExp),
	loaderRoute("yaml.NewConfig(PathSep,VarExp)", uyaml.NewConfig, ucfg.PathSep("."), ucfg.VarExp),
	loaderRoute("json.NewConfig(PathSep,VarExp)", ujson.NewConfig, ucfg.PathSep("."), ucfg.VarExp),
	parseRoute("parse.ValueWithConfig(DefaultConfig)", parse.DefaultConfig),
	parseRoute("parse.ValueWithConfig(EnvConfig)", parse.EnvConfig),
	parseRoute("parse.ValueWithConfig(Array+Object only)", parse.Config{Array: true, Object: true}),
	parseRoute("parse.ValueWithConfig(Array only)", parse.Config{Array: true}),
}

// deepShapesFor: thorough = every shape through every route; quick = four
// shapes through parse.Value and hjson.NewConfig, two through the other
// plain loaders and the flag / environment / resolver routes, one through the
// remaining variants.
func deepShapesFor(tier string, rt deepRoute) []int {
	want := map[string]bool{}
	switch {
	case tier == "thorough":
	case rt.name == "parse.Value":
		want = map[string]bool{"open-lists": true, "closed-lists": true, "open-objects": true, "closed-mixed-spaced": true}
	case rt.name == "hjson.NewConfig":
		want = map[string]bool{"open-lists": true, "closed-lists": true, "closed-objects": true, "closed-lists-then-reference": true}
	case strings.HasPrefix(rt.name, "parse.ValueWithConfig"):
		want = map[string]bool{"open-lists": true}
	case strings.HasSuffix(rt.name, "(PathSep,VarExp)"):
		want = map[string]bool{"closed-objects": true}
	case rt.family() == "varexp-expression":
		want = map[string]bool{"nested-references": true, "nested-defaults": true}
		if strings.Contains(rt.name, "JSON") {
			want = map[string]bool{"nested-alternatives": true}
		}
	case rt.family() == "path-segments":
		want = map[string]bool{"name-segments": true}
		if strings.Contains(rt.name, "NewFrom") {
			want["index-segments"] = true
		}
	default:
		want = map[string]bool{"open-lists": true, "closed-objects": true}
	}
	var out []int
	for si, sh := range rt.shapes {
		if tier == "thorough" || want[sh.name] {
			out = append(out, si)
		}
	}
	return out
}

// ---------------------------------------------------------------------------
// the probe process

func deepChild(spec string) {
	debug.SetMaxStack(64 << 20) // as in the workers
	lim := syscall.Rlimit{Cur: 4 << 30, Max: 4 << 30}
	syscall.Setrlimit(syscall.RLIMIT_AS, &lim)
	debug.SetMemoryLimit(3 << 30)
	parts := strings.Split(spec, ",")
	if len(parts) == 3 && parts[0] == "U" {
		unitChild(parts[1], parts[2]) // never returns
	}
	if len(parts) < 3 {
		fmt.Println("BADSPEC")
		os.Exit(0)
	}
	start := time.Now()
	go func() {
		for {
			time.Sleep(20 * time.Millisecond)
			if cpuTime() > deepTimeout || time.Since(start) > 10*deepTimeout {
				fmt.Printf("WATCHDOG time: %v of processor time, %v of wall time\n", cpuTime().Round(time.Millisecond), time.Since(start).Round(time.Millisecond))
				os.Exit(4)
			}
		}
	}()
	ri, _ := strconv.Atoi(parts[0])
	si, _ := strconv.Atoi(parts[1])
	rt := deepRoutes[ri]
	sh := rt.shapes[si]
	for _, p := range parts[2:] {
		n, _ := strconv.Atoi(p)
		s := sh.build(n)
		fmt.Printf("START %d\n", n)
		func() {
			defer func() {
				if rec := recover(); rec != nil {
					msg := fmt.Sprint(rec)
					if len(msg) > 200 {
						msg = msg[:200]
					}
					fmt.Printf("PANIC %d %s\n%s\nENDPANIC\n", n, strings.ReplaceAll(msg, "\n", " "), debug.Stack())
				}
			}()
			fmt.Printf("DONE %d %s\n", n, rt.call(s))
		}()
	}
	fmt.Println("END")
	os.Exit(0)
}

// ---------------------------------------------------------------------------
// the case

type deepReport struct {
	done     map[int]string // depth -> outcome
	started  []int
	panics   []string // "depth message" + stack
	ended    bool
	timedOut bool
	stderr   string
	exitErr  error
}

func runProbe(ri, si int, depths []int) deepReport {
	rep := deepReport{done: map[int]string{}}
	exe, err := os.Executable()
	if err != nil {
		rep.exitErr = err
		return rep
	}
	var ds []string
	for _, d := range depths {
		ds = append(ds, strconv.Itoa(d))
	}
	// the probe ends itself after deepTimeout of PROCESSOR time (the load of
	// the machine must not decide); the wall clock is only a backstop
	ctx, cancel := context.WithTimeout(context.Background(), 10*deepTimeout+10*time.Second)
	defer cancel()
	cmd := exec.CommandContext(ctx, exe, "c07-deep-probe")
	cmd.Env = append(os.Environ(), fmt.Sprintf("%s=%d,%d,%s", deepEnv, ri, si, strings.Join(ds, ",")), "GOTRACEBACK=single")
	cmd.SysProcAttr = &syscall.SysProcAttr{Pdeathsig: syscall.SIGKILL}
	var so, se bytes.Buffer
	cmd.Stdout, cmd.Stderr = &so, &se
	rep.exitErr = cmd.Run()
	rep.timedOut = ctx.Err() == context.DeadlineExceeded || strings.Contains(so.String(), "WATCHDOG time")
	rep.stderr = se.String()
	lines := strings.Split(so.String(), "\n")
	for i := 0; i < len(lines); i++ {
		f := strings.Fields(lines[i])
		switch {
		case len(f) >= 2 && f[0] == "START":
			n, _ := strconv.Atoi(f[1])
			rep.started = append(rep.started, n)
		case len(f) >= 3 && f[0] == "DONE":
			n, _ := strconv.Atoi(f[1])
			rep.done[n] = f[2]
		case len(f) >= 2 && f[0] == "PANIC":
			var b []string
			for ; i < len(lines) && lines[i] != "ENDPANIC"; i++ {
				b = append(b, lines[i])
			}
			rep.panics = append(rep.panics, strings.Join(b, "\n"))
		case len(f) == 1 && f[0] == "END":
			rep.ended = true
		}
	}
	return rep
}

// deathClass: what the Go runtime said when the probe died.
func deathClass(stderr string) string {
	for _, line := range strings.Split(stderr, "\n") {
		l := strings.TrimSpace(line)
		switch {
		case strings.Contains(l, "stack overflow") || strings.Contains(l, "stack exceeds"):
			return "stack-overflow"
		case strings.Contains(l, "out of memory") || strings.Contains(l, "cannot allocate memory"):
			return "out-of-memory"
		case strings.HasPrefix(l, "fatal error:"):
			return strings.ReplaceAll(strings.TrimSpace(strings.TrimPrefix(l, "fatal error:")), " ", "-")
		case strings.HasPrefix(l, "panic:"):
			return "panic"
		}
	}
	return "unknown"
}

func pkgOfFrame(fn string) string {
	switch {
	case strings.Contains(fn, "elastic/go-ucfg/parse."):
		return "go-ucfg/parse"
	case strings.Contains(fn, "elastic/go-ucfg/"):
		// yaml., json., hjson., flag. sub-packages
		s := fn[strings.Index(fn, "elastic/go-ucfg/")+len("elastic/go-ucfg/"):]
		if i := strings.Index(s, "."); i > 0 {
			return "go-ucfg/" + s[:i]
		}
		return "go-ucfg"
	case strings.Contains(fn, "elastic/go-ucfg."):
		return "go-ucfg"
	case strings.Contains(fn, "hjson-go"):
		return "hjson-go"
	case strings.Contains(fn, "gopkg.in/yaml"):
		return "yaml.v2"
	case strings.HasPrefix(fn, "encoding/json."):
		return "encoding/json"
	}
	return ""
}

// recursionOwner reads the innermost frames of the goroutine that was running
// when the runtime gave up: the package most of them belong to, and the
// distinct functions seen (innermost first).
func recursionOwner(trace string) (pkg string, fns []string) {
	lines := strings.Split(trace, "\n")
	start := 0
	for i, l := range lines {
		if strings.HasPrefix(l, "goroutine ") && strings.Contains(l, "[running") {
			start = i + 1
			break
		}
	}
	count := map[string]int{}
	seen := map[string]bool{}
	frames := 0
	for _, l := range lines[start:] {
		if l == "" {
			if frames > 0 {
				break
			}
			continue
		}
		if strings.HasPrefix(l, "\t") || strings.HasPrefix(l, "...") {
			continue
		}
		fn := l
		if i := strings.LastIndex(fn, "("); i > 0 {
			fn = fn[:i]
		}
		p := pkgOfFrame(fn)
		if p == "" {
			continue
		}
		frames++
		count[p]++
		short := fn[strings.LastIndex(fn, "/")+1:]
		if !seen[short] && len(fns) < 6 {
			seen[short] = true
			fns = append(fns, short)
		}
		if frames >= 40 {
			break
		}
	}
	best := 0
	for p, c := range count {
		if c > best || (c == best && p < pkg) {
			pkg, best = p, c
		}
	}
	if pkg == "" {
		pkg = "unknown"
	}
	return pkg, fns
}

// deepCases: quick = one case per route (a runaway recursion of one route
// shows up as one violating case; a few probe processes each); thorough = one
// case per (route, shape), a case stays far below the stall allowance.
func deepCases(tier string) int { return deepCasesOf(tier, 0, len(deepRoutesBase)) }

func runDeep(m *mon, r *rand.Rand, seed int64, tier string, k int) {
	runDeepOf(m, tier, k, 0, len(deepRoutesBase))
}

// the routes added later (expressions, paths) are a segment of their own, away
// from the first ones: the supervisor hands out neighbouring cases as one batch
func deepCasesR4(tier string) int { return deepCasesOf(tier, len(deepRoutesBase), len(deepRoutes)) }

func runDeepR4(m *mon, r *rand.Rand, seed int64, tier string, k int) {
	runDeepOf(m, tier, k, len(deepRoutesBase), len(deepRoutes))
}

func deepCasesOf(tier string, lo, hi int) int {
	if tier != "thorough" {
		return hi - lo
	}
	n := 0
	for _, rt := range deepRoutes[lo:hi] {
		n += len(rt.shapes)
	}
	return n
}

func runDeepOf(m *mon, tier string, k, lo, hi int) {
	if tier == "thorough" {
		for ri := lo; ri < hi; ri++ {
			rt := deepRoutes[ri]
			if k < len(rt.shapes) {
				m.res.SetAdd("entry_point", rt.name)
				m.res.SetAdd("h_route", rt.name)
				runDeepShape(m, ri, k, deepDepthsFor(tier, rt.family()))
				return
			}
			k -= len(rt.shapes)
		}
		return
	}
	rt := deepRoutes[lo+k]
	m.res.SetAdd("entry_point", rt.name)
	m.res.SetAdd("h_route", rt.name)
	for _, si := range deepShapesFor(tier, rt) {
		runDeepShape(m, lo+k, si, deepDepthsFor(tier, rt.family()))
	}
}

func runDeepShape(m *mon, ri, si int, depths []int) {
	res := m.res
	rt := deepRoutes[ri]
	sh := rt.shapes[si]
	res.Key("H|" + rt.name + "|" + sh.name)
	res.SetAdd("input_class", "deep-nesting/"+sh.name)
	res.SetAdd("h_shape", sh.name)
	if m.verbose {
		fmt.Printf("deep nesting: %s through %s at depths %v (in a probe process)\n", sh.name, rt.name, depths)
	}
	rep := runProbe(ri, si, depths)
	res.Ev("h_probe_processes", 1)
	res.Eval(len(rep.started))
	maxDone := 0
	for d, o := range rep.done {
		res.Ev("h_depths_returned", 1)
		res.SetAdd("h_outcome", o)
		if d > maxDone {
			maxDone = d
		}
	}
	res.SetAdd("h_max_depth_returned_log2", fmt.Sprint(log2(maxDone)))
	in := func(d int) string {
		return fmt.Sprintf("%s: %s nested %d deep (%s..., %d bytes)", rt.name, sh.name, d, short(sh.build(8)), len(sh.build(d)))
	}
	for _, p := range rep.panics {
		res.Ev("panics", 1)
		head := p
		if i := strings.Index(p, "\n"); i > 0 {
			head = p[:i]
		}
		pkg, fns := recursionOwner(p)
		res.Violate("deep-nesting:"+rt.family()+":panic:in-"+pkg, "%s panicked in the probe process: %s (%s); input: %s", rt.name, head, strings.Join(fns, "<"), in(firstInt(head)))
	}
	if rep.ended {
		res.Ev("h_probes_completed", 1)
		return
	}
	died := 0
	for _, d := range rep.started {
		if _, ok := rep.done[d]; !ok {
			died = d
		}
	}
	if died == 0 {
		res.Violate("check-defect:deep-probe-did-not-run", "the probe process for %s/%s did not run: %v; stderr: %s", rt.name, sh.name, rep.exitErr, short(rep.stderr))
		return
	}
	if rep.timedOut {
		res.Ev("h_probe_timeouts", 1)
		res.Violate("hang:deep-nesting:"+rt.family(), "the probe process did not return within %v of processor time (largest depth that returned: %d); input: %s", deepTimeout, maxDone, in(died))
		return
	}
	res.Ev("h_probe_deaths", 1)
	class := deathClass(rep.stderr)
	pkg, fns := recursionOwner(rep.stderr)
	first := rep.stderr
	if i := strings.Index(first, "\n\n"); i > 0 {
		first = first[:i]
	}
	res.Violate("fatal:"+class+":deep-nesting:"+rt.family()+":in-"+pkg,
		"the process executing %s died (%s, 64 MiB stack cap as in the workers; the recursion runs in %s: %s); largest depth that returned: %d; input: %s; runtime report: %s",
		rt.name, class, pkg, strings.Join(fns, " < "), maxDone, in(died), short(strings.ReplaceAll(first, "\n", " | ")))
}

func firstInt(s string) int {
	for _, f := range strings.Fields(s) {
		if n, err := strconv.Atoi(f); err == nil {
			return n
		}
	}
	return 0
}
