package c07

import (
	"fmt"
	"math"
	"math/rand"
	"regexp"
	"time"
	"unsafe"

	ucfg "github.com/elastic/go-ucfg"
	udiff "github.com/elastic/go-ucfg/diff"
)

// workload (k): arguments the other workloads do not vary.
//
//	case 0: Unpack targets with fields / elements of INTERFACE types whose
//	        method set makes the library treat them as Initializer, Unpacker
//	        or Validator (nil and pre-filled), x config fixtures x option sets
//	case 1: Go values of unsupported or awkward types given to Merge / NewFrom
//	        (complex, uintptr, unsafe.Pointer, chan, func, regexp.Regexp and
//	        time types by value in unaddressable positions ...)
//	case 2: the child argument of SetChild (nil, zero value), the arguments of
//	        the diff package (Type values outside its constants, nil configs)

// --- case 0 -----------------------------------------------------------------

type plugin interface {
	InitDefaults()
	Run()
}

type pluginImpl struct {
	A int `config:"a"`
}

func (p *pluginImpl) InitDefaults() { p.A = 7 }
func (p *pluginImpl) Run()          {}

type cfgUnpackerPlus interface {
	Unpack(*ucfg.Config) error
	Other()
}

type namedValidator interface {
	Validate() error
}

type ifaceRow struct {
	label string
	class string
	mk    func() interface{}
}

var ifaceRows = []ifaceRow{
	// interface types holding InitDefaults
	{"field-Initializer-nil", "interface-type-with-InitDefaults", func() interface{} { return &struct{ A ucfg.Initializer }{} }},
	{"field-plugin-nil", "interface-type-with-InitDefaults", func() interface{} { return &struct{ A, V, Next plugin }{} }},
	{"field-plugin-set", "interface-type-with-InitDefaults", func() interface{} { return &struct{ A plugin }{A: &pluginImpl{}} }},
	{"map-of-plugin", "interface-type-with-InitDefaults", func() interface{} { return &map[string]plugin{} }},
	{"map-of-plugin-prefilled", "interface-type-with-InitDefaults", func() interface{} { return &map[string]plugin{"a": &pluginImpl{}, "v": nil} }},
	{"slice-of-plugin", "interface-type-with-InitDefaults", func() interface{} { return &[]plugin{} }},
	{"field-slice-of-plugin", "interface-type-with-InitDefaults", func() interface{} { return &struct{ A []plugin }{} }},
	{"array-of-plugin", "interface-type-with-InitDefaults", func() interface{} { return &[2]plugin{} }},
	{"pointer-to-plugin", "interface-type-with-InitDefaults", func() interface{} { var p plugin; return &p }},
	{"field-pointer-to-plugin", "interface-type-with-InitDefaults", func() interface{} { return &struct{ A *plugin }{} }},
	{"inline-plugin", "interface-type-with-InitDefaults", func() interface{} {
		return &struct {
			A plugin `config:",inline"`
		}{}
	}},
	// the Unpacker interface types themselves
	{"field-Unpacker-nil", "unpacker-interface-type", func() interface{} { return &struct{ A, V ucfg.Unpacker }{} }},
	{"field-ConfigUnpacker-nil", "unpacker-interface-type", func() interface{} { return &struct{ A, V ucfg.ConfigUnpacker }{} }},
	{"field-StringUnpacker-nil", "unpacker-interface-type", func() interface{} { return &struct{ A, V ucfg.StringUnpacker }{} }},
	{"field-IntUnpacker-nil", "unpacker-interface-type", func() interface{} { return &struct{ A, V ucfg.IntUnpacker }{} }},
	{"field-UintUnpacker-nil", "unpacker-interface-type", func() interface{} { return &struct{ A, V ucfg.UintUnpacker }{} }},
	{"field-BoolUnpacker-nil", "unpacker-interface-type", func() interface{} { return &struct{ A, V ucfg.BoolUnpacker }{} }},
	{"field-FloatUnpacker-nil", "unpacker-interface-type", func() interface{} { return &struct{ A, V ucfg.FloatUnpacker }{} }},
	{"field-custom-unpacker-interface-nil", "unpacker-interface-type", func() interface{} { return &struct{ A, V cfgUnpackerPlus }{} }},
	{"field-Unpacker-set", "unpacker-interface-type", func() interface{} { return &struct{ A ucfg.Unpacker }{A: &okUnp{}} }},
	{"field-ConfigUnpacker-set", "unpacker-interface-type", func() interface{} { return &struct{ A ucfg.ConfigUnpacker }{A: &cfgUnpErr{}} }},
	{"map-of-Unpacker", "unpacker-interface-type", func() interface{} { return &map[string]ucfg.Unpacker{} }},
	{"map-of-Unpacker-prefilled", "unpacker-interface-type", func() interface{} { return &map[string]ucfg.Unpacker{"a": &okUnp{}, "v": nil} }},
	{"slice-of-Unpacker", "unpacker-interface-type", func() interface{} { return &[]ucfg.Unpacker{} }},
	{"slice-of-ConfigUnpacker", "unpacker-interface-type", func() interface{} { return &[]ucfg.ConfigUnpacker{} }},
	{"array-of-StringUnpacker", "unpacker-interface-type", func() interface{} { return &[2]ucfg.StringUnpacker{} }},
	{"pointer-to-Unpacker", "unpacker-interface-type", func() interface{} { var u ucfg.Unpacker; return &u }},
	{"inline-ConfigUnpacker", "unpacker-interface-type", func() interface{} {
		return &struct {
			A ucfg.ConfigUnpacker `config:",inline"`
		}{}
	}},
	// a NAMED field of a Validator interface type (an EMBEDDED nil interface is the
	// user's own type panicking, see Assumptions)
	{"field-Validator-nil", "validator-interface-type", func() interface{} { return &struct{ A, V ucfg.Validator }{} }},
	{"field-named-validator-nil", "validator-interface-type", func() interface{} { return &struct{ A namedValidator }{} }},
	{"field-Validator-set", "validator-interface-type", func() interface{} { return &struct{ A ucfg.Validator }{A: errVal{}} }},
	{"map-of-Validator", "validator-interface-type", func() interface{} { return &map[string]ucfg.Validator{"a": nil} }},
	{"slice-of-Validator", "validator-interface-type", func() interface{} { return &[]ucfg.Validator{nil} }},
	{"field-Validator-nil-required", "validator-interface-type", func() interface{} {
		return &struct {
			A ucfg.Validator `config:"a" validate:"required"`
		}{}
	}},
}

// fields tagged inline whose STATIC type is an interface (empty, named,
// pointer to interface), pre-filled with every kind of holder: nothing, typed
// nil pointers, set pointers, values, and the same one level deeper
type inlIface interface{}

type inlStruct struct {
	A int `config:"a"`
	V int `config:"v"`
}

type inlineFill struct {
	label string
	mk    func() interface{}
}

var inlineFills = []inlineFill{
	{"nil", func() interface{} { return nil }},
	{"typed-nil-struct-pointer", func() interface{} { return (*inlStruct)(nil) }},
	{"typed-nil-map-pointer", func() interface{} { return (*map[string]interface{})(nil) }},
	{"struct-pointer", func() interface{} { return &inlStruct{A: 1} }},
	{"struct-by-value", func() interface{} { return inlStruct{A: 1} }},
	{"map", func() interface{} { return map[string]interface{}{"a": 1} }},
	{"nil-map", func() interface{} { return map[string]interface{}(nil) }},
	{"map-pointer", func() interface{} { mm := map[string]interface{}{"a": 1}; return &mm }},
	{"typed-nil-slice-pointer", func() interface{} { return (*[]int)(nil) }},
	{"typed-nil-int-pointer", func() interface{} { return (*int)(nil) }},
	{"typed-nil-config-pointer", func() interface{} { return (*ucfg.Config)(nil) }},
	// one level deeper: the interface holds a pointer to a pointer
	{"pointer-to-nil-struct-pointer", func() interface{} { var p *inlStruct; return &p }},
	{"pointer-to-struct-pointer", func() interface{} { p := &inlStruct{A: 1}; return &p }},
	{"typed-nil-pointer-to-struct-pointer", func() interface{} { return (**inlStruct)(nil) }},
	{"pointer-to-nil-map-pointer", func() interface{} { var p *map[string]interface{}; return &p }},
	{"pointer-to-interface-holding-nil-struct-pointer", func() interface{} { var i interface{} = (*inlStruct)(nil); return &i }},
	{"pointer-to-interface-holding-struct", func() interface{} { var i interface{} = inlStruct{}; return &i }},
}

func inlineIfaceRows() []ifaceRow {
	var out []ifaceRow
	for _, f := range inlineFills {
		f := f
		out = append(out,
			ifaceRow{"inline-interface-holding-" + f.label, "inline-field-of-interface-type", func() interface{} {
				return &struct {
					F0 interface{} `config:",inline"`
				}{F0: f.mk()}
			}},
			ifaceRow{"inline-named-interface-holding-" + f.label, "inline-field-of-interface-type", func() interface{} {
				return &struct {
					F0 inlIface `config:",inline"`
					X  int      `config:"x"`
				}{F0: f.mk()}
			}},
			ifaceRow{"inline-pointer-to-interface-holding-" + f.label, "inline-field-of-interface-type", func() interface{} {
				i := f.mk()
				return &struct {
					F0 *interface{} `config:",inline"`
				}{F0: &i}
			}},
			ifaceRow{"inline-nonempty-interface-holding-" + f.label, "inline-field-of-interface-type", func() interface{} {
				t := &struct {
					F0 fmt.Stringer `config:",inline"`
				}{}
				if s, ok := f.mk().(fmt.Stringer); ok {
					t.F0 = s
				}
				return t
			}},
		)
	}
	out = append(out, ifaceRow{"inline-nil-pointer-to-interface", "inline-field-of-interface-type", func() interface{} {
		return &struct {
			F0 *interface{} `config:",inline"`
		}{}
	}})
	return out
}

func init() { ifaceRows = append(ifaceRows, inlineIfaceRows()...) }

func runIfaceTargets(m *mon) {
	for _, row := range ifaceRows {
		for _, f := range fixtures {
			for _, o := range dOpts {
				unpackInto(m, row.class, row.label, row.mk, f, o)
			}
		}
	}
	m.res.Ev("k_interface_typed_target_rows", int64(len(ifaceRows)))
}

// --- case 1 -----------------------------------------------------------------

type goValueRow struct {
	label string
	class string
	mk    func() interface{}
}

var reSample = regexp.MustCompile("x+")

type holdsRegexp struct {
	R regexp.Regexp `config:"r"`
}

type holdsOdd struct {
	C complex64      `config:"c"`
	U uintptr        `config:"u"`
	P unsafe.Pointer `config:"p"`
}

var goValueRows = []goValueRow{
	{"map value complex128", "non-nillable-unsupported-kind", func() interface{} { return mp{"a": complex(1, 2)} }},
	{"map value complex64", "non-nillable-unsupported-kind", func() interface{} { return mp{"a": complex64(1)} }},
	{"map value uintptr", "non-nillable-unsupported-kind", func() interface{} { return mp{"a": uintptr(1)} }},
	{"list element complex128", "non-nillable-unsupported-kind", func() interface{} { return li{1, complex(0, 0)} }},
	{"typed slice of uintptr", "non-nillable-unsupported-kind", func() interface{} { return []uintptr{1, 2} }},
	{"typed map of complex128", "non-nillable-unsupported-kind", func() interface{} { return map[string]complex128{"a": 1} }},
	{"struct fields complex64/uintptr/unsafe.Pointer", "non-nillable-unsupported-kind", func() interface{} { return holdsOdd{} }},
	{"pointer to struct with such fields", "non-nillable-unsupported-kind", func() interface{} { return &holdsOdd{} }},
	{"pointer to complex128", "non-nillable-unsupported-kind", func() interface{} { c := complex(1, 1); return mp{"a": &c} }},
	{"array of uintptr", "non-nillable-unsupported-kind", func() interface{} { return mp{"a": [2]uintptr{}} }},
	{"top-level complex128", "non-nillable-unsupported-kind", func() interface{} { return complex(1, 2) }},
	{"top-level uintptr", "non-nillable-unsupported-kind", func() interface{} { return uintptr(5) }},

	{"map value regexp.Regexp by value", "regexp-by-value-unaddressable", func() interface{} { return mp{"a": *reSample} }},
	{"struct by value holding regexp.Regexp", "regexp-by-value-unaddressable", func() interface{} { return holdsRegexp{*reSample} }},
	{"array of regexp.Regexp in a map", "regexp-by-value-unaddressable", func() interface{} { return mp{"a": [1]regexp.Regexp{*reSample}} }},
	{"typed map of regexp.Regexp", "regexp-by-value-unaddressable", func() interface{} { return map[string]regexp.Regexp{"a": *reSample} }},
	{"interface list element regexp.Regexp", "regexp-by-value-unaddressable", func() interface{} { return li{*reSample} }},
	{"top-level regexp.Regexp by value", "regexp-by-value-unaddressable", func() interface{} { return *reSample }},
	{"zero regexp.Regexp by value", "regexp-by-value-unaddressable", func() interface{} { return mp{"a": regexp.Regexp{}} }},

	{"pointer to struct holding regexp.Regexp", "regexp-addressable", func() interface{} { return &holdsRegexp{*reSample} }},
	{"*regexp.Regexp", "regexp-addressable", func() interface{} { return mp{"a": reSample, "b": (*regexp.Regexp)(nil)} }},
	{"slice of regexp.Regexp", "regexp-addressable", func() interface{} { return mp{"a": []regexp.Regexp{*reSample}} }},

	{"unsafe.Pointer", "nillable-unsupported-kind", func() interface{} { x := 1; return mp{"a": unsafe.Pointer(&x), "b": unsafe.Pointer(nil)} }},
	{"chan and func", "nillable-unsupported-kind", func() interface{} {
		return mp{"a": make(chan int), "b": func() {}, "c": (chan int)(nil), "d": (func())(nil)}
	}},
	{"map with int keys", "nillable-unsupported-kind", func() interface{} { return mp{"a": map[int]int{1: 1}} }},
	{"interface keys not strings", "nillable-unsupported-kind", func() interface{} { return map[interface{}]interface{}{1: 1, nil: 2, "a": 3} }},

	{"time.Time and time.Duration by value", "time-values", func() interface{} { return mp{"a": time.Time{}, "b": time.Duration(5), "c": [1]time.Duration{1}} }},
	{"time values in a struct by value", "time-values", func() interface{} {
		return struct {
			T time.Time
			D time.Duration
			P *time.Duration
		}{}
	}},
	{"special floats", "special-numbers", func() interface{} {
		return mp{"a": math.NaN(), "b": math.Inf(1), "c": math.Inf(-1), "d": float32(math.MaxFloat32), "e": uint64(math.MaxUint64), "f": int64(math.MinInt64)}
	}},
	{"named kinds", "named-kinds", func() interface{} {
		type b bool
		type s string
		type i int8
		type f float32
		type m map[string]interface{}
		type l []interface{}
		return mp{"a": b(true), "b": s("${x}"), "c": i(-1), "d": f(1.5), "e": m{"k": l{1}}}
	}},
}

func runGoValues(m *mon) {
	res := m.res
	for _, row := range goValueRows {
		row := row
		class := "merge-go-value/" + row.class
		res.Key("K|" + row.label)
		res.SetAdd("input_class", class)
		for _, o := range zeroOpts {
			o := o
			d := func(what string) func() string {
				return func() string { return fmt.Sprintf("%s of %s (%T), options %s", what, row.label, row.mk(), o.name) }
			}
			var c *ucfg.Config
			var err error
			st := m.do(call{entry: "NewFrom", class: class, desc: d("NewFrom")}, func() { c, err = ucfg.NewFrom(row.mk(), o.opts...) })
			if st == stOK && err == nil && c != nil {
				res.Ev("k_go_values_accepted", 1)
				nsRead(m, c, o.opts, class, defaultMaxIdx+1, d("reads after NewFrom"))
			} else if st == stOK {
				res.Ev("k_go_values_refused", 1)
			}
			for _, dst := range zeroDsts {
				dst := dst
				to := dst.mk(o.opts)
				if to == nil {
					continue
				}
				st := m.do(call{entry: "Merge", class: class, desc: d("Merge into " + dst.name)}, func() { err = to.Merge(row.mk(), o.opts...) })
				if st == stOK {
					nsRead(m, to, o.opts, class, defaultMaxIdx+1, d("reads after Merge into "+dst.name))
				}
			}
		}
	}
	res.SetAdd("entry_point", "NewFrom")
	res.SetAdd("entry_point", "Merge")
	res.Ev("k_go_value_rows", int64(len(goValueRows)))
}

// --- case 2 -----------------------------------------------------------------

func runOtherArguments(m *mon) {
	res := m.res
	// the child argument of SetChild
	children := []struct {
		label, class string
		mk           func() *ucfg.Config
	}{
		{"nil", "SetChild-nil-child", func() *ucfg.Config { return nil }},
		{"zero value", "SetChild-zero-value-child", func() *ucfg.Config { return &ucfg.Config{} }},
	}
	for _, ch := range children {
		for _, sh := range shapes[:4] {
			for _, o := range nameOptSets[:3] {
				for _, name := range []string{"a", "", "a.b", "l", "new", "0"} {
					for _, idx := range []int{-1, 0, 1, 5} {
						ch, sh, o, name, idx := ch, sh, o, name, idx
						c, err := ucfg.NewFrom(sh.build(), o.opts...)
						if err != nil {
							continue
						}
						res.Key(fmt.Sprintf("K|SetChild|%s|%s|%s|%q|%d", ch.label, sh.name, o.name, name, idx))
						d := func() string {
							return fmt.Sprintf("SetChild(%q, %d, %s child) options %s on shape %s = %v", name, idx, ch.label, o.name, sh.name, sh.build())
						}
						st := m.do(call{entry: "SetChild", class: ch.class, hasIdx: true, idx: idx, desc: d}, func() { c.SetChild(name, idx, ch.mk(), o.opts...) })
						if st == stOK {
							nsRead(m, c, o.opts, ch.class, defaultMaxIdx+1, func() string { return "reads after " + d() })
						}
						res.Ev("k_setchild_argument_calls", 1)
					}
				}
			}
		}
	}
	res.SetAdd("entry_point", "SetChild")
	res.SetAdd("input_class", "SetChild-nil-child")

	// the diff package
	for _, n := range []int{-1 << 63, -2, -1, 0, 1, 2, 3, 4, 5, 255, 1 << 31, 1<<63 - 1} {
		n := n
		m.do(call{entry: "diff.Type.String", class: "diff-Type-outside-its-constants", desc: func() string { return fmt.Sprintf("diff.Type(%d).String()", n) }}, func() { _ = udiff.Type(n).String() })
		res.Ev("k_diff_type_values", 1)
	}
	some, _ := ucfg.NewFrom(mp{"a": 1, "b": li{1, 2}})
	pairs := []struct {
		label    string
		old, new *ucfg.Config
	}{
		{"CompareConfigs(nil, config)", nil, some},
		{"CompareConfigs(config, nil)", some, nil},
		{"CompareConfigs(nil, nil)", nil, nil},
		{"CompareConfigs(zero value, config)", &ucfg.Config{}, some},
		{"CompareConfigs(config, config)", some, some},
	}
	for _, p := range pairs {
		p := p
		m.do(call{entry: "diff.CompareConfigs", class: "diff-nil-config-argument", desc: func() string { return p.label }}, func() {
			d := udiff.CompareConfigs(p.old, p.new)
			_ = d.String()
			d.HasChanged()
			d.HasKeyAdded()
			d.HasKeyRemoved()
			_ = d.GoStringer()
		})
		res.Ev("k_diff_compare_calls", 1)
	}
	res.SetAdd("entry_point", "diff.CompareConfigs")
	res.SetAdd("entry_point", "diff.Type.String")
	res.SetAdd("input_class", "diff-arguments")
}

func argumentCases() int { return 3 }

func runArguments(m *mon, r *rand.Rand, seed int64, tier string, k int) {
	switch k {
	case 0:
		runIfaceTargets(m)
	case 1:
		runGoValues(m)
	default:
		runOtherArguments(m)
	}
}
