package c07

import (
	"fmt"
	"math/rand"
	"strings"

	ucfg "github.com/elastic/go-ucfg"
)

// workload (i): Merge under every combination of a global policy and
// per-field policies onto destinations that hold REFERENCES.
//
// What a merge policy does with a setting depends on what is there already.
// A reference is there "already" only after it has been evaluated, and it may
// evaluate to an object, a list, a primitive, nothing at all, itself, or an
// ancestor; the per-field options are kept in a tree that is walked in step
// with the settings and only exists where a dotted name was split (PathSep
// given BEFORE the field option). The workload draws a destination and an
// update over the same few keys (so that updates land on references and below
// them), a global policy, 0-3 per-field options over names of those keys
// (plain, dotted, indexed, wildcards), the position of PathSep relative to
// them, and merges - twice, then reads everything. Oracle: monitors only.

var polKeys = []string{"k", "sub", "other", "l", "o", "k", "sub"}

// leaves of the destination: mostly references
var polRefs = []string{
	"${other}", "${nowhere}", "${k}", "${l}", "${o}", "${k.sub}", "${o.sub}", "${l.0}", "${other}${other}",
	"${nowhere:}", "${nowhere:${other}}", "${sub}", "${o.k}", "${l.1.sub}", "pre-${other}", "${k.sub.sub}",
}

func polTree(r *rand.Rand, depth int, refs int) interface{} {
	x := r.Intn(12)
	if depth <= 0 && x >= 6 {
		x = r.Intn(6)
	}
	switch {
	case x < refs:
		return polRefs[r.Intn(len(polRefs))]
	case x < 5:
		return []interface{}{5, "s", true, 2.5, nil, 0, -1}[r.Intn(7)]
	case x == 5:
		if r.Intn(2) == 0 {
			return mp{}
		}
		return li{}
	case x < 10:
		out := mp{}
		for i, n := 0, 1+r.Intn(3); i < n; i++ {
			out[polKeys[r.Intn(len(polKeys))]] = polTree(r, depth-1, refs)
		}
		return out
	default:
		out := li{}
		for i, n := 0, 1+r.Intn(3); i < n; i++ {
			out = append(out, polTree(r, depth-1, refs))
		}
		return out
	}
}

func polTop(r *rand.Rand, refs int) mp {
	out := mp{}
	for _, k := range []string{"k", "other", "l", "o"} {
		if r.Intn(5) > 0 {
			out[k] = polTree(r, 2, refs)
		}
	}
	// what the references point to, most of the time
	if r.Intn(3) > 0 {
		out["other"] = []interface{}{5, "s", nil, 2.5}[r.Intn(4)]
	}
	if r.Intn(3) > 0 {
		out["l"] = li{1, mp{"sub": li{2}}}
	}
	if r.Intn(3) > 0 {
		out["o"] = mp{"sub": li{0}, "k": mp{"sub": 1}}
	}
	return out
}

var polFieldNames = []string{
	"k", "k.sub", "k.sub.sub", "k.sub.k", "k.l", "k.o", "l", "l.0", "l.1", "l.1.sub", "o", "o.sub", "o.k.sub", "other",
	"*", "**", "k.*", "k.**", "**.sub", "*.sub", "k.0", "k.0.sub", "sub", "nowhere", "nowhere.sub",
}

type polGlobal struct {
	name string
	opt  ucfg.Option
}

var polGlobals = []polGlobal{
	{"default", nil},
	{"ReplaceValues", ucfg.ReplaceValues},
	{"ReplaceArrValues", ucfg.ReplaceArrValues},
	{"AppendValues", ucfg.AppendValues},
	{"PrependValues", ucfg.PrependValues},
}

type polField struct {
	name string
	mk   func(...string) ucfg.Option
}

var polFields = []polField{
	{"FieldMergeValues", ucfg.FieldMergeValues},
	{"FieldReplaceValues", ucfg.FieldReplaceValues},
	{"FieldAppendValues", ucfg.FieldAppendValues},
	{"FieldPrependValues", ucfg.FieldPrependValues},
}

// refsUnder: does the destination hold a reference at or below a top-level key
// the update has as well?
func polRefsMet(dst, upd mp) bool {
	var has func(v interface{}) bool
	has = func(v interface{}) bool {
		switch x := v.(type) {
		case string:
			return strings.Contains(x, "${")
		case mp:
			for _, e := range x {
				if has(e) {
					return true
				}
			}
		case li:
			for _, e := range x {
				if has(e) {
					return true
				}
			}
		}
		return false
	}
	for k := range upd {
		if v, ok := dst[k]; ok && has(v) {
			return true
		}
	}
	return false
}

func runMergePolicies(m *mon, r *rand.Rand, seed int64, tier string, k int) {
	res := m.res
	for n := 0; n < 12; n++ {
		dst := polTop(r, 4)
		upd := polTop(r, 1)
		if r.Intn(2) == 0 {
			// an update made of objects where the destination has something
			for key := range dst {
				if r.Intn(2) == 0 {
					upd[key] = mp{"sub": li{1}, polKeys[r.Intn(len(polKeys))]: polTree(r, 1, 1)}
				}
			}
		}
		g := polGlobals[r.Intn(len(polGlobals))]
		if r.Intn(3) == 0 {
			g = polGlobals[1] // the policy that drops what it finds
		}
		var fieldDesc []string
		var fieldOpts []ucfg.Option
		for i, c := 0, r.Intn(4); i < c; i++ {
			f := polFields[r.Intn(len(polFields))]
			var names []string
			for j, cn := 0, 1+r.Intn(2); j < cn; j++ {
				names = append(names, polFieldNames[r.Intn(len(polFieldNames))])
			}
			fieldOpts = append(fieldOpts, f.mk(names...))
			fieldDesc = append(fieldDesc, fmt.Sprintf("%s(%s)", f.name, strings.Join(names, ",")))
		}
		sepFirst := r.Intn(4) > 0
		var opts []ucfg.Option
		var optDesc []string
		if sepFirst {
			opts = append(opts, ucfg.PathSep("."))
			optDesc = append(optDesc, "PathSep")
		}
		opts = append(opts, ucfg.VarExp)
		optDesc = append(optDesc, "VarExp")
		globalFirst := r.Intn(2) == 0
		if g.opt != nil && globalFirst {
			opts = append(opts, g.opt)
			optDesc = append(optDesc, g.name)
		}
		opts = append(opts, fieldOpts...)
		optDesc = append(optDesc, fieldDesc...)
		if g.opt != nil && !globalFirst {
			opts = append(opts, g.opt)
			optDesc = append(optDesc, g.name)
		}
		if !sepFirst {
			opts = append(opts, ucfg.PathSep("."))
			optDesc = append(optDesc, "PathSep")
		}
		build := []ucfg.Option{ucfg.PathSep("."), ucfg.VarExp}

		onto := "onto-plain-settings"
		if polRefsMet(dst, upd) {
			onto = "onto-references"
			res.Ev("i_merges_onto_references", 1)
		}
		fo := "no-field-options"
		if len(fieldOpts) > 0 {
			fo = "field-options"
			if sepFirst {
				fo = "field-options-after-PathSep"
				res.Ev("i_merges_with_field_options_after_PathSep", 1)
			}
		}
		class := "merge-policies/" + g.name + "/" + fo + "/" + onto
		res.SetAdd("input_class", class)
		res.SetAdd("i_policy_class", g.name+"/"+fo+"/"+onto)
		if g.name == "ReplaceValues" && fo == "field-options-after-PathSep" && onto == "onto-references" {
			res.Ev("i_replace_global_with_field_options_onto_references", 1)
		}
		desc := func(what string) func() string {
			return func() string {
				return fmt.Sprintf("%s: destination %v (built with PathSep, VarExp) <- update %v, options in this order: %s", what, dst, upd, strings.Join(optDesc, ", "))
			}
		}
		res.Key(fmt.Sprintf("I|%v|%v|%s", dst, upd, strings.Join(optDesc, ",")))
		var c *ucfg.Config
		m.do(call{entry: "NewFrom", class: class, desc: desc("NewFrom(destination)")}, func() { c, _ = ucfg.NewFrom(dst, build...) })
		if c == nil {
			res.Ev("i_destination_refused", 1)
			continue
		}
		var err error
		st := m.do(call{entry: "Merge", class: class, stepClass: "merge-into-config-with-references", desc: desc("Merge")}, func() { err = c.Merge(upd, opts...) })
		res.SetAdd("entry_point", "Merge")
		if st != stOK {
			continue
		}
		if err != nil {
			res.Ev("i_merges_refused", 1)
		} else {
			res.Ev("i_merges_accepted", 1)
		}
		nsRead(m, c, build, class, defaultMaxIdx+1, desc("reads after Merge"))
		// once more: now the destination holds what the update brought
		st = m.do(call{entry: "Merge", class: class, stepClass: "merge-into-config-with-references", desc: desc("second Merge")}, func() { err = c.Merge(upd, opts...) })
		if st == stOK {
			nsRead(m, c, build, class, defaultMaxIdx+1, desc("reads after the second Merge"))
		}
		// the update as a configuration of its own (references on both sides)
		var u *ucfg.Config
		m.do(call{entry: "NewFrom", class: class, desc: desc("NewFrom(update)")}, func() { u, _ = ucfg.NewFrom(upd, build...) })
		if u != nil {
			var d2 *ucfg.Config
			m.do(call{entry: "NewFrom", class: class, desc: desc("NewFrom(destination)")}, func() { d2, _ = ucfg.NewFrom(dst, build...) })
			if d2 != nil {
				st = m.do(call{entry: "Merge", class: class, stepClass: "merge-into-config-with-references", desc: desc("Merge(update as *Config)")}, func() { err = d2.Merge(u, opts...) })
				if st == stOK {
					nsRead(m, d2, build, class, defaultMaxIdx+1, desc("reads after Merge(update as *Config)"))
				}
			}
		}
		// the policies on the unpack side: into a struct holding a *Config and a map
		m.do(call{entry: "Unpack", class: class, desc: desc("Unpack(update) into pre-filled struct")}, func() {
			if u == nil {
				return
			}
			pre, err := ucfg.NewFrom(dst, build...)
			if err != nil {
				return
			}
			sub, _ := pre.Child("k", -1, build...)
			to := struct {
				K *ucfg.Config           `config:"k"`
				O map[string]interface{} `config:"o"`
				L []interface{}          `config:"l"`
			}{K: sub, O: map[string]interface{}{"sub": []interface{}{9}}, L: []interface{}{9}}
			u.Unpack(&to, opts...)
		})
		res.SetAdd("entry_point", "Unpack")
	}
	res.Ev("i_policy_cases", 1)
}
