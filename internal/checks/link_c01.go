//go:build !only || only_c01

package checks

import _ "verif/internal/checks/c01"
