package c02

// Sixth workload of C02: "references are resolved at read time so they observe
// values merged in later", "for all merge orders that define the referenced
// value before or after the referencing one" - when the setting the reference
// is merged ONTO already holds something (an object, a list, a primitive,
// another reference, nothing) and the referenced name b is defined by the same
// operand, by the target before, or only later. A reference is not a
// container: merged onto anything it is the new value of the setting, and it
// is resolved when read, never by Merge. A last merge changes b; reading the
// setting must yield the current b.

import (
	"fmt"
	"math/rand"

	ucfg "github.com/elastic/go-ucfg"

	"verif/internal/harness"
	"verif/internal/model"
	"verif/internal/vx"
)

func runLateBind(res *harness.R, r *rand.Rand, idx int, verbose bool) {
	aKey := []string{"a", "s.a"}[r.Intn(2)]
	oldKind := []string{"object", "list", "primitive", "reference-to-object", "absent"}[r.Intn(5)]
	bKind := []string{"object", "list", "primitive"}[r.Intn(3)]
	where := []string{"same-operand", "target-before", "later-only"}[r.Intn(3)]

	var b1, b2, final interface{}
	switch bKind {
	case "object":
		b1 = map[string]interface{}{"x": 1}
		b2 = map[string]interface{}{"x": 2, "y": 3}
		final = map[string]interface{}{"x": uint64(2), "y": uint64(3)}
	case "list":
		b1 = []interface{}{1}
		b2 = []interface{}{2}
		final = []interface{}{uint64(2)}
	default:
		b1, b2, final = "b1", "b2", "b2"
	}
	opA := map[string]interface{}{"keep": "x"}
	switch oldKind {
	case "object":
		opA[aKey] = map[string]interface{}{"k": 1}
	case "list":
		opA[aKey] = []interface{}{7, 8}
	case "primitive":
		opA[aKey] = "old"
	case "reference-to-object":
		opA[aKey] = "${c}"
		opA["c"] = map[string]interface{}{"k": 1}
	}
	opB := map[string]interface{}{aKey: "${b}"}
	switch where {
	case "same-operand":
		opB["b"] = b1
	case "target-before":
		opA["b"] = b1
	}
	opC := map[string]interface{}{"b": b2}
	desc := fmt.Sprintf("late binding: New; Merge(%v); Merge(%v); Merge(%v) (each with PathSep \".\", VarExp); read %q", opA, opB, opC, aKey)

	c := ucfg.New()
	var err error
	if p, pv, at := harness.Safe(func() {
		for _, op := range []map[string]interface{}{opA, opB, opC} {
			if err = c.Merge(op, vx.BaseOpts...); err != nil {
				return
			}
		}
	}); p {
		res.Violate("panic", "panic %q at %s in %s", pv, at, desc)
		return
	}
	res.Eval(3)
	if err != nil {
		res.Violate("build-error", "a merge failed: %v; %s", err, desc)
		return
	}
	res.Ev("latebind_cases", 1)
	res.Key(desc)
	res.SetAdd("latebind_old_x_referenced_x_defined", oldKind+"/"+bKind+"/"+where)

	sig := "late-binding-mismatch"
	if oldKind == "object" || oldKind == "list" || oldKind == "reference-to-object" {
		sig = "reference-merged-onto-container-is-resolved-by-merge"
	}
	var got interface{}
	if p, pv, at := harness.Safe(func() { got, err = vx.ReadField(c, aKey, nil, vx.BaseOpts) }); p {
		res.Violate("panic", "panic %q at %s reading; %s", pv, at, desc)
		return
	}
	res.Eval(1)
	if verbose {
		fmt.Printf("latebind %s -> %#v %v (want %#v)\n", aKey, got, err, final)
	}
	if err != nil {
		res.Violate(sig, "Unpack(interface{}) of %q failed with %v, the setting is ${b} and b is %s now; %s", aKey, err, model.CanonIfc(final), desc)
		return
	}
	if model.CanonIfc(got) != model.CanonIfc(final) {
		res.Violate(sig, "Unpack(interface{}) of %q = %s, the setting is ${b} and b is %s now; %s", aKey, model.CanonIfc(got), model.CanonIfc(final), desc)
		return
	}
	// b itself
	if p, pv, at := harness.Safe(func() { got, err = vx.ReadField(c, "b", nil, vx.BaseOpts) }); p {
		res.Violate("panic", "panic %q at %s reading b; %s", pv, at, desc)
		return
	}
	res.Eval(1)
	if err != nil || model.CanonIfc(got) != model.CanonIfc(final) {
		res.Violate("late-binding-mismatch", "Unpack(interface{}) of \"b\" = %s, %v, expected %s; %s", model.CanonIfc(got), err, model.CanonIfc(final), desc)
	}
}
