// Package c02: see DESIGN.md section 3 C02.
package c02
