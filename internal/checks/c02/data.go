package c02

// Third workload of C02: expansion results are DATA. The statement says what
// a string with ${...} expressions reads as: the text with every reference
// replaced by the value found, with $$ -> $ and $} -> }. What comes out of
// that substitution (an escaped "${x}", the text of a referenced setting, an
// Env value, a resolver answer) is a result, not an expression: it must not be
// expanded a second time, also when the resulting text takes the documented
// text->value step and parses as a LIST or an OBJECT, whose elements are then
// read one by one or as a whole.
//
// Every case builds one setting "t" from a template (comma list, bracket
// list, nested list, object, plain text, bare) around a carrier that brings
// the marker text (e.g. "${x}") into the result; x is defined with a canary
// value in half of the cases and undefined in the others. The expected value
// is the resulting text R (known by construction) after the documented
// text->value step (package parse, checked on its own by C17).

import (
	"fmt"
	"math/rand"
	"reflect"
	"sort"
	"strings"

	ucfg "github.com/elastic/go-ucfg"
	"github.com/elastic/go-ucfg/parse"

	"verif/internal/harness"
	"verif/internal/model"
	"verif/internal/vx"
)

const canary = "CANARY"

type dataCase struct {
	tree     map[string]interface{} // Go data of the configuration (flat keys, PathSep ".")
	env      map[string]interface{} // Go data of the Env configuration (built WITHOUT VarExp), or nil
	resName  string                 // name the resolver knows ("" = no resolver)
	resValue string
	resCfg   parse.Config
	resCfgN  string

	carrier string // escape, tree-text, tree-splice, env-value, resolver-answer
	shape   string
	marker  string
	tText   string // spelling of t handed to the library
	result  string // R: the text t expands to
	nrefs   int    // references in t
	single  bool   // t is exactly one reference
	carried string // text the carrier expands to
}

var dataTemplates = []struct {
	shape string
	parts []string // "\x00" stands for the carrier
}{
	{"comma-list", []string{"\x00", ",b"}},
	{"comma-list", []string{"a,", "\x00"}},
	{"comma-list", []string{"a, ", "\x00", " ,b"}},
	{"bracket-list", []string{"[", "\x00", ", b]"}},
	{"nested-list", []string{"[a, [", "\x00", "]]"}},
	{"object", []string{"{k: '", "\x00", "'}"}},
	{"object", []string{"{j: a, k: \"", "\x00", "\"}"}},
	{"object-of-list", []string{"{k: [a, '", "\x00", "']}"}},
	{"plain", []string{"\x00", " b"}},
	{"plain", []string{"a ", "\x00"}},
	{"bare", []string{"\x00"}},
}

func genData(r *rand.Rand) *dataCase {
	d := &dataCase{tree: map[string]interface{}{"e": ""}}
	xname := []string{"x", "s.x"}[r.Intn(2)]
	if r.Intn(2) == 0 {
		d.tree[xname] = canary
	}
	d.marker = []string{"${%s}", "${%s}", "${%s:oops}", "${%s:+oops}", "${%s:?oops}"}[r.Intn(5)]
	d.marker = fmt.Sprintf(d.marker, xname)
	// the text the carrier brings in: the marker, alone or inside a text that is
	// a list of its own
	carried := d.marker
	d.carrier = []string{"escape", "tree-text", "tree-splice", "env-value", "resolver-answer"}[r.Intn(5)]
	if d.carrier != "tree-splice" && r.Intn(3) == 0 {
		carried = []string{"a," + d.marker, d.marker + ",b", "[" + d.marker + "]"}[r.Intn(3)]
	}
	if d.carrier == "tree-splice" {
		// the carrier setting itself must come out as the marker text
		if v, err := textToValue(carried, parse.DefaultConfig); err != nil || v != interface{}(carried) {
			d.carrier = "tree-text"
		}
	}
	d.carried = carried
	var piece string
	switch d.carrier {
	case "escape":
		piece = renderAlt(model.Lit(carried), r)
	case "tree-text":
		// a plain string of the tree (written with escapes, it holds no ${})
		d.tree["p"] = renderAlt(model.Lit(carried), r)
		piece = "${p}"
	case "tree-splice":
		// a setting whose own expansion results in the marker text
		d.tree["q"] = "${e}" + renderAlt(model.Lit(carried), r)
		piece = "${q}"
	case "env-value":
		d.env = map[string]interface{}{"ev": carried}
		piece = "${ev}"
	default:
		d.resName, d.resValue = "rv", carried
		k := r.Intn(3)
		d.resCfg = []parse.Config{parse.NoopConfig, parse.EnvConfig, parse.DefaultConfig}[k]
		d.resCfgN = []string{"NoopConfig", "EnvConfig", "DefaultConfig"}[k]
		piece = "${rv}"
	}
	tpl := dataTemplates[r.Intn(len(dataTemplates))]
	d.shape = tpl.shape
	var text, result strings.Builder
	npieces := 0
	emit := func(src, res string, ref bool) {
		text.WriteString(src)
		result.WriteString(res)
		npieces++
		if ref {
			d.nrefs++
		}
	}
	// an empty reference somewhere makes t a string with expansions even if
	// the marker comes from an escape
	eAt := -1
	if r.Intn(2) == 0 {
		eAt = r.Intn(len(tpl.parts) + 1)
	}
	for i, p := range tpl.parts {
		if i == eAt {
			emit("${e}", "", true)
		}
		if p == "\x00" {
			emit(piece, carried, d.carrier != "escape")
		} else {
			emit(p, p, false) // no '$' in the template texts: nothing to escape
		}
	}
	if eAt == len(tpl.parts) {
		emit("${e}", "", true)
	}
	d.tText, d.result = text.String(), result.String()
	d.single = npieces == 1 && d.nrefs == 1
	d.tree["t"] = d.tText
	return d
}

func (d *dataCase) describe() string {
	ks := make([]string, 0, len(d.tree))
	for k := range d.tree {
		ks = append(ks, k)
	}
	sort.Strings(ks)
	var parts []string
	for _, k := range ks {
		parts = append(parts, fmt.Sprintf("%s=%q", k, d.tree[k]))
	}
	s := "data: config{" + strings.Join(parts, ", ") + "} (PathSep \".\", VarExp)"
	if d.env != nil {
		s += fmt.Sprintf(" Env(built without VarExp)=%v", d.env)
	}
	if d.resName != "" {
		s += fmt.Sprintf(" Resolve{%s -> %q, parse.%s}", d.resName, d.resValue, d.resCfgN)
	}
	return s
}

// textToValue is the documented text->value step.
func textToValue(s string, cfg parse.Config) (interface{}, error) {
	v, err := parse.ValueWithConfig(s, cfg)
	if err != nil {
		return nil, err
	}
	if v == nil && strings.TrimSpace(s) == "" {
		return s, nil
	}
	return v, nil
}

// expected: what reading t must yield.
func (d *dataCase) expected() (interface{}, error) {
	switch {
	case d.nrefs == 0:
		return d.result, nil // a string without references is the text itself
	case d.single:
		switch d.carrier {
		case "tree-text", "env-value":
			return d.carried, nil // the referenced value with its type: a string
		case "resolver-answer":
			return textToValue(d.carried, d.resCfg)
		}
	}
	return textToValue(d.result, parse.DefaultConfig)
}

type leaf struct {
	path string // below t, "" = t itself
	idx  int    // >= 0: element idx of the top-level list, read with the idx argument
	val  string
}

func leaves(v interface{}, path string, out *[]leaf) {
	switch x := v.(type) {
	case string:
		*out = append(*out, leaf{path: path, idx: -1, val: x})
	case []interface{}:
		for i, e := range x {
			leaves(e, strings.TrimPrefix(fmt.Sprintf("%s.%d", path, i), "."), out)
		}
	case map[string]interface{}:
		ks := make([]string, 0, len(x))
		for k := range x {
			ks = append(ks, k)
		}
		sort.Strings(ks)
		for _, k := range ks {
			leaves(x[k], strings.TrimPrefix(path+"."+k, "."), out)
		}
	}
}

func runData(res *harness.R, r *rand.Rand, idx int, verbose bool) {
	d := genData(r)
	desc := d.describe()
	opts := append([]ucfg.Option{}, vx.BaseOpts...)
	var c *ucfg.Config
	var err error
	if p, pv, where := harness.Safe(func() {
		c, err = ucfg.NewFrom(d.tree, vx.BaseOpts...)
		if err == nil && d.env != nil {
			var e *ucfg.Config
			if e, err = ucfg.NewFrom(d.env, ucfg.PathSep(".")); err == nil {
				opts = append(opts, ucfg.Env(e))
			}
		}
	}); p {
		res.Violate("panic", "panic %q at %s building %s", pv, where, desc)
		return
	}
	res.Eval(1)
	if err != nil {
		res.Violate("build-error", "building the configuration failed: %v; %s", err, desc)
		return
	}
	if d.resName != "" {
		opts = append(opts, ucfg.Resolve(func(n string) (string, parse.Config, error) {
			if n == d.resName {
				return d.resValue, d.resCfg, nil
			}
			return "", d.resCfg, ucfg.ErrMissing
		}))
	}
	want, perr := d.expected()
	if perr != nil {
		res.Ev("data_result_rejected_by_the_text_to_value_step", 1)
		return
	}
	res.Ev("data_cases", 1)
	res.Key(desc)
	kind := typeClass(want)
	res.SetAdd("data_carrier_x_result", d.carrier+"/"+d.shape+"->"+kind)
	if kind == "list" || kind == "object" {
		res.Ev("data_results_parsed_as_list_or_object_holding_${", 1)
	}
	var lv []leaf
	leaves(want, "", &lv)
	if l, ok := want.([]interface{}); ok {
		for i, e := range l {
			if s, ok := e.(string); ok {
				lv = append(lv, leaf{idx: i, val: s})
			}
		}
	}

	fail := func(how string, got interface{}, gerr error, wantS string) {
		// expanded again: the marker was due verbatim and is gone (replaced by
		// what it expands to, or the read failed evaluating it)
		sig := "expansion-result-data-mismatch"
		if strings.Contains(wantS, d.marker) && (gerr != nil || !strings.Contains(fmt.Sprint(got), d.marker)) {
			sig = "expansion-result-expanded-again:" + d.carrier
		}
		if gerr != nil {
			res.Violate(sig, "%s failed with %v, the statement yields %s (the text %q after the text->value step); %s", how, gerr, wantS, d.result, desc)
		} else {
			res.Violate(sig, "%s = %s, the statement yields %s (the text %q after the text->value step); %s", how, model.CanonIfc(got), wantS, d.result, desc)
		}
	}

	// whole
	var got interface{}
	if p, pv, where := harness.Safe(func() { got, err = vx.ReadField(c, "t", nil, opts) }); p {
		res.Violate("panic", "panic %q at %s unpacking t; %s", pv, where, desc)
		return
	}
	res.Eval(1)
	res.SetAdd("read_path", "data Unpack(interface{})")
	if verbose {
		fmt.Printf("data t whole -> %#v err=%v (want %#v)\n", got, err, want)
	}
	if err != nil || model.CanonIfc(got) != model.CanonIfc(want) {
		fail("Unpack(interface{}) of \"t\"", got, err, model.CanonIfc(want))
		return
	}
	if typeClass(got) != kind {
		res.Violate("expansion-result-data-mismatch", "Unpack(interface{}) of \"t\" has type %T, expected %T; %s", got, want, desc)
		return
	}
	// the whole configuration in one Unpack
	var m map[string]interface{}
	if p, pv, where := harness.Safe(func() { err = c.Unpack(&m, opts...) }); p {
		res.Violate("panic", "panic %q at %s unpacking the configuration; %s", pv, where, desc)
		return
	}
	res.Eval(1)
	res.SetAdd("read_path", "data Unpack(whole config)")
	if err != nil || model.CanonIfc(m["t"]) != model.CanonIfc(want) {
		fail("Unpack of the whole configuration, \"t\"", m["t"], err, model.CanonIfc(want))
		return
	}
	// element by element
	for _, l := range lv {
		var s string
		how := ""
		if p, pv, where := harness.Safe(func() {
			switch {
			case l.idx >= 0:
				how = fmt.Sprintf("String(\"t\", %d)", l.idx)
				s, err = c.String("t", l.idx, opts...)
			case l.path == "":
				how = "String(\"t\", -1)"
				s, err = c.String("t", -1, opts...)
			default:
				how = fmt.Sprintf("String(%q, -1)", "t."+l.path)
				s, err = c.String("t."+l.path, -1, opts...)
			}
		}); p {
			res.Violate("panic", "panic %q at %s in %s; %s", pv, where, how, desc)
			return
		}
		res.Eval(1)
		res.Ev("data_elements_read", 1)
		if err != nil || s != l.val {
			fail(how, s, err, fmt.Sprintf("%q", l.val))
			return
		}
	}
	if kind == "string" {
		if p, pv, where := harness.Safe(func() { got, err = vx.ReadField(c, "t", reflect.TypeOf(""), opts) }); p {
			res.Violate("panic", "panic %q at %s unpacking t into a string; %s", pv, where, desc)
			return
		}
		res.Eval(1)
		if err != nil || got != want {
			fail("Unpack(string) of \"t\"", got, err, fmt.Sprintf("%q", want))
			return
		}
	}
}
