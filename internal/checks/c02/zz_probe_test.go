package c02

import (
	"fmt"
	"testing"

	ucfg "github.com/elastic/go-ucfg"
	"github.com/elastic/go-ucfg/parse"
)

func TestProbe(t *testing.T) {
	V := ucfg.VarExp
	P := ucfg.PathSep(".")
	show := func(label string, v interface{}, err error) { fmt.Printf("%-40s -> %#v err=%v\n", label, v, err) }
	// a
	c, _ := ucfg.NewFrom(map[string]interface{}{"a": "${e}$${x},b", "e": "", "x": "boom", "p": "$${x},b", "q": "${e}$${x}", "r": "${e}$${x} b", "o": "${e}{k: $${x}}"}, V)
	s, err := c.String("a", 0, V)
	show("a String(a,0)", s, err)
	s, err = c.String("a", -1, V)
	show("a String(a,-1)", s, err)
	s, err = c.String("a", 1, V)
	show("a String(a,1)", s, err)
	s, err = c.String("p", -1, V)
	show("p plain String(p,-1)", s, err)
	s, err = c.String("q", -1, V)
	show("q String(q,-1)", s, err)
	s, err = c.String("r", -1, V)
	show("r String(r,-1)", s, err)
	var m map[string]interface{}
	err = c.Unpack(&m, V)
	show("Unpack whole", m, err)
	// resolver answer
	c2, _ := ucfg.NewFrom(map[string]interface{}{"a": "${r}", "b": "x${r}", "secret": "S3"}, V)
	for _, pc := range []struct {
		n string
		c parse.Config
	}{{"noop", parse.NoopConfig}, {"env", parse.EnvConfig}, {"default", parse.DefaultConfig}} {
		pc := pc
		res := ucfg.Resolve(func(n string) (string, parse.Config, error) {
			if n == "r" {
				return "a,${secret}", pc.c, nil
			}
			return "", pc.c, ucfg.ErrMissing
		})
		var m2 map[string]interface{}
		err = c2.Unpack(&m2, V, res)
		show("resolver "+pc.n, m2, err)
	}
	// env value
	e, _ := ucfg.NewFrom(map[string]interface{}{"r": "a,${secret}"})
	c3, _ := ucfg.NewFrom(map[string]interface{}{"a": "${r}", "b": "x,${r}", "secret": "S3"}, V)
	var m3 map[string]interface{}
	err = c3.Unpack(&m3, V, ucfg.Env(e))
	show("env", m3, err)

	// b
	cb, _ := ucfg.NewFrom(map[string]interface{}{"a": map[string]interface{}{"b": 42}, "x": "a.b", "i": "${${x}}", "j": "${a.b}", "k": "${${x}:7}"}, V, P)
	i, err := cb.Int("i", -1)
	show("b Int(i) no opts", i, err)
	i, err = cb.Int("i", -1, V, P)
	show("b Int(i) V,P", i, err)
	i, err = cb.Int("j", -1)
	show("b Int(j) no opts", i, err)
	i, err = cb.Int("k", -1)
	show("b Int(k) no opts", i, err)
	// c
	calls := 0
	res := ucfg.Resolve(func(n string) (string, parse.Config, error) {
		calls++
		if n == "a.b.c" || n == "a.b" || n == "a.b.c.d" {
			return "fromres", parse.NoopConfig, nil
		}
		return "", parse.NoopConfig, ucfg.ErrMissing
	})
	cc, _ := ucfg.NewFrom(map[string]interface{}{"a": 1, "r3": "${a.b.c}", "r2": "${a.b}", "r4": "${a.b.c.d}", "s3": "x${a.b.c}", "s2": "x${a.b}", "d3": "${a.b.c:dflt}", "alt3": "${a.b.c:+yes}"}, V, P)
	for _, k := range []string{"r2", "r3", "r4", "s2", "s3", "d3", "alt3"} {
		calls = 0
		s, err := cc.String(k, -1, V, P, res)
		show(fmt.Sprintf("c %s (resolver calls %d)", k, calls), s, err)
	}
	// with env in between
	env, _ := ucfg.NewFrom(map[string]interface{}{"a": map[string]interface{}{"b": map[string]interface{}{"c": "fromenv"}}})
	for _, k := range []string{"r2", "r3", "s3"} {
		s, err := cc.String(k, -1, V, P, ucfg.Env(env))
		show("c env "+k, s, err)
	}
	// d
	cd, _ := ucfg.NewFrom(map[string]interface{}{"x": nil, "d": "${x:d}", "e": "${x:?m}", "alt": "${x:+a}", "r": "${x}", "s": "v${x}"}, V)
	for _, k := range []string{"d", "e", "alt", "r", "s"} {
		s, err := cd.String(k, -1, V)
		show("d "+k, s, err)
	}
	var md map[string]interface{}
	err = cd.Unpack(&md, V)
	show("d unpack", md, err)
}
