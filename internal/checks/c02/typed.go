package c02

// Fifth workload of C02: "A setting that is exactly one reference takes the
// referenced value with its type" - judged by a differential twin. The same
// value V sits in the tree directly (setting "direct") and is reached by a
// setting "ref" that is exactly one reference: to the setting, through a chain
// of two references, to a value of an Env configuration, or to a resolver
// answer (whose documented value is parse.ValueWithConfig(answer)). Reading
// "ref" must have the outcome of reading "direct" - same error-ness, same
// value, same effect on a pre-set target - for every kind of V (null, int,
// uint, float, bool, strings, list, object) and every target: Unpack into
// pointer / number / string / bool / time.Duration / *Config / interface{} /
// an Unpacker / slices of these, and the typed getters.

import (
	"fmt"
	"math/rand"
	"reflect"
	"time"

	ucfg "github.com/elastic/go-ucfg"
	"github.com/elastic/go-ucfg/parse"

	"verif/internal/harness"
	"verif/internal/model"
	"verif/internal/vx"
)

type recUnpacker struct {
	Called bool
	Got    string
}

func (u *recUnpacker) Unpack(v interface{}) error {
	u.Called, u.Got = true, model.CanonIfc(v)
	return nil
}

type typedValue struct {
	kind   string
	v      interface{}
	answer string // the text a resolver answers to stand for v ("" = not expressible)
}

var typedValues = []typedValue{
	{"null", nil, "null"},
	{"int", 5, "5"},
	{"int", -3, "-3"},
	{"uint", uint64(1) << 63, "9223372036854775808"},
	{"float", 1.5, "1.5"},
	{"bool", true, "true"},
	{"string", "str", "str"},
	{"string", "90s", "90s"},
	{"string", "", ""},
	{"list", []interface{}{1, 2}, "[1, 2]"},
	{"object", map[string]interface{}{"k": 1}, "{k: 1}"},
}

type typedTarget struct {
	name   string
	t      reflect.Type
	preset interface{}
}

var typedTargets = []typedTarget{
	{"*int", reflect.TypeOf((*int)(nil)), nil},
	{"int", reflect.TypeOf(int(0)), nil},
	{"int preset", reflect.TypeOf(int(0)), 7},
	{"uint64", reflect.TypeOf(uint64(0)), nil},
	{"float64", reflect.TypeOf(float64(0)), nil},
	{"bool", reflect.TypeOf(false), nil},
	{"string preset", reflect.TypeOf(""), "keep"},
	{"*string", reflect.TypeOf((*string)(nil)), nil},
	{"time.Duration", reflect.TypeOf(time.Duration(0)), nil},
	{"*time.Duration", reflect.TypeOf((*time.Duration)(nil)), nil},
	{"[]time.Duration", reflect.TypeOf([]time.Duration(nil)), nil},
	{"[]int", reflect.TypeOf([]int(nil)), nil},
	{"[]string", reflect.TypeOf([]string(nil)), nil},
	{"*ucfg.Config", reflect.TypeOf((*ucfg.Config)(nil)), nil},
	{"interface{}", reflect.TypeOf((*interface{})(nil)).Elem(), nil},
	{"interface{} preset", reflect.TypeOf((*interface{})(nil)).Elem(), "keep"},
	{"map[string]interface{}", reflect.TypeOf(map[string]interface{}(nil)), nil},
	{"Unpacker", reflect.TypeOf(recUnpacker{}), nil},
}

// unpackField unpacks setting key of c into a one-field struct of type t
// (pre-set if preset != nil) and returns a canonical rendering of the field.
func unpackField(c *ucfg.Config, key string, tt typedTarget, opts []ucfg.Option) (string, error) {
	st := reflect.StructOf([]reflect.StructField{{Name: "V", Type: tt.t, Tag: reflect.StructTag(fmt.Sprintf(`config:"%s"`, key))}})
	p := reflect.New(st)
	if tt.preset != nil {
		p.Elem().Field(0).Set(reflect.ValueOf(tt.preset))
	}
	if err := c.Unpack(p.Interface(), opts...); err != nil {
		return "", err
	}
	f := p.Elem().Field(0)
	switch x := f.Interface().(type) {
	case *ucfg.Config:
		if x == nil {
			return "nil *Config", nil
		}
		var v interface{}
		if err := x.Unpack(&v, opts...); err != nil {
			return "*Config failing to unpack", nil
		}
		return "*Config " + model.CanonIfc(v), nil
	case recUnpacker:
		return fmt.Sprintf("Unpacker called=%v got=%s", x.Called, x.Got), nil
	}
	for f.Kind() == reflect.Ptr {
		if f.IsNil() {
			return "nil pointer", nil
		}
		f = f.Elem()
	}
	return fmt.Sprintf("%#v", f.Interface()), nil
}

func runTyped(res *harness.R, r *rand.Rand, idx int, verbose bool) {
	tv := typedValues[r.Intn(len(typedValues))]
	route := []string{"reference", "chain-of-two", "env-value", "resolver-answer", "list-element"}[r.Intn(5)]
	if route == "resolver-answer" && tv.kind == "string" && tv.v == "" {
		route = "reference" // an empty answer is not an answer (see Assumptions)
	}
	tree := map[string]interface{}{"direct": tv.v, "ref": "${v}"}
	opts := append([]ucfg.Option{}, vx.BaseOpts...)
	var env map[string]interface{}
	switch route {
	case "reference":
		tree["v"] = tv.v
	case "chain-of-two":
		tree["v"] = "${w}"
		tree["w"] = tv.v
	case "env-value":
		env = map[string]interface{}{"v": tv.v}
	case "resolver-answer":
		// the documented value of the answer is the twin
		d, err := parse.ValueWithConfig(tv.answer, parse.DefaultConfig)
		if err != nil {
			return
		}
		tree["direct"] = d
	default:
		// the reference is an element of a list
		tree["v"] = tv.v
		tree["direct"] = []interface{}{tv.v, "x"}
		tree["ref"] = []interface{}{"${v}", "x"}
	}
	desc := fmt.Sprintf("typed: config%v (PathSep \".\", VarExp) route=%s", tree, route)
	var c *ucfg.Config
	var err error
	if p, pv, where := harness.Safe(func() {
		if c, err = ucfg.NewFrom(tree, vx.BaseOpts...); err != nil {
			return
		}
		if env != nil {
			var e *ucfg.Config
			if e, err = ucfg.NewFrom(env, ucfg.PathSep(".")); err == nil {
				opts = append(opts, ucfg.Env(e))
				desc += fmt.Sprintf(" Env%v", env)
			}
		}
	}); p {
		res.Violate("panic", "panic %q at %s building %s", pv, where, desc)
		return
	}
	res.Eval(1)
	if err != nil {
		res.Violate("build-error", "building the configuration failed: %v; %s", err, desc)
		return
	}
	if route == "resolver-answer" {
		opts = append(opts, ucfg.Resolve(func(n string) (string, parse.Config, error) {
			if n == "v" {
				return tv.answer, parse.DefaultConfig, nil
			}
			return "", parse.DefaultConfig, ucfg.ErrMissing
		}))
		desc += fmt.Sprintf(" Resolve{v -> %q, parse.DefaultConfig}", tv.answer)
	}
	res.Ev("typed_cases", 1)
	res.Key(desc)
	res.SetAdd("typed_value_x_route", tv.kind+"/"+route)

	sig := func(target string) string {
		switch {
		case tv.kind == "null":
			return "reference-to-null-does-not-read-like-null"
		case (tv.kind == "int" || tv.kind == "uint" || tv.kind == "float") && (target == "time.Duration" || target == "*time.Duration" || target == "[]time.Duration"):
			return "number-by-reference-into-duration-differs-from-the-number"
		}
		return "single-reference-reads-differently-from-the-referenced-value"
	}

	// 3 targets per case
	for j := 0; j < 3; j++ {
		tt := typedTargets[r.Intn(len(typedTargets))]
		var d1, d2 string
		var e1, e2 error
		if p, pv, where := harness.Safe(func() {
			d1, e1 = unpackField(c, "direct", tt, opts)
			d2, e2 = unpackField(c, "ref", tt, opts)
		}); p {
			res.Violate("panic", "panic %q at %s unpacking into %s; %s", pv, where, tt.name, desc)
			return
		}
		res.Eval(2)
		res.SetAdd("typed_target", tt.name)
		if verbose {
			fmt.Printf("typed %s: direct=%s,%v ref=%s,%v\n", tt.name, d1, e1, d2, e2)
		}
		if (e1 == nil) != (e2 == nil) || (e1 == nil && d1 != d2) {
			res.Violate(sig(tt.name), "Unpack into %s: \"direct\" gives %s, %v but \"ref\" (exactly one reference to the same value) gives %s, %v; %s", tt.name, d1, e1, d2, e2, desc)
			return
		}
		if e1 == nil {
			res.Ev("typed_unpacks_succeeding_for_both", 1)
		}
	}
	if route == "list-element" {
		return
	}
	// typed getters
	type got struct {
		v   interface{}
		err error
	}
	getters := []struct {
		name string
		f    func(key string) got
	}{
		{"Bool", func(k string) got { v, err := c.Bool(k, -1, opts...); return got{v, err} }},
		{"Int", func(k string) got { v, err := c.Int(k, -1, opts...); return got{v, err} }},
		{"Uint", func(k string) got { v, err := c.Uint(k, -1, opts...); return got{v, err} }},
		{"Float", func(k string) got { v, err := c.Float(k, -1, opts...); return got{v, err} }},
		{"String", func(k string) got { v, err := c.String(k, -1, opts...); return got{v, err} }},
		{"Child", func(k string) got {
			ch, err := c.Child(k, -1, opts...)
			if err != nil {
				return got{nil, err}
			}
			var v interface{}
			if err := ch.Unpack(&v, opts...); err != nil {
				return got{"child failing to unpack", nil}
			}
			return got{model.CanonIfc(v), nil}
		}},
	}
	g := getters[r.Intn(len(getters))]
	var g1, g2 got
	if p, pv, where := harness.Safe(func() { g1, g2 = g.f("direct"), g.f("ref") }); p {
		res.Violate("panic", "panic %q at %s in %s; %s", pv, where, g.name, desc)
		return
	}
	res.Eval(2)
	res.SetAdd("typed_target", "getter "+g.name)
	if (g1.err == nil) != (g2.err == nil) || (g1.err == nil && !reflect.DeepEqual(g1.v, g2.v)) {
		res.Violate(sig("getter"), "%s(\"direct\") = %#v, %v but %s(\"ref\") = %#v, %v; %s", g.name, g1.v, g1.err, g.name, g2.v, g2.err, desc)
	}
}
