package c02

// Seventh workload of C02 (sixth wave): what a setting yields does not depend
// on which settings were read before it in the same call.
//
// Small trees of 3-5 top-level settings over the names a..e whose expressions
// are rich in default / alternative operators and refer to each other in both
// directions, so that cycles absorbed by an operator are the rule, not the
// exception (b: ${c:+A${a:G}}, c: ${b:Db}, d: ${d:${c:F}}); optionally one Env
// configuration and one resolver. The oracle is the evaluator of the statement
// (model/varexp.go, no memory between evaluations): every setting has ONE
// value for a given tree and set of layers. That value is demanded from
//   - the setting read alone (String getter, a call of its own),
//   - the setting read as the i-th field of a struct in ONE Unpack call, for
//     2-3 random orders of the fields (string and interface{} fields),
//   - one Unpack of the whole tree into a map.
// Settings the evaluator says fail (unabsorbed cycle, unresolvable name) are
// left out of the structs: one failing field fails the whole call.

import (
	"fmt"
	"math/rand"
	"reflect"
	"sort"

	ucfg "github.com/elastic/go-ucfg"
	"github.com/elastic/go-ucfg/parse"

	"verif/internal/harness"
	"verif/internal/model"
	"verif/internal/vx"
)

var ordNames = []string{"a", "b", "c", "d", "e"}

// words the text->value step leaves alone, alone and concatenated
var ordLits = []string{"ka", "Gu", "Db", "Xy", "Aq"}

type ordGen struct{ names []string }

func (g ordGen) name(r *rand.Rand) *model.Ex { return model.Lit(g.names[r.Intn(len(g.names))]) }

func (g ordGen) gen(r *rand.Rand, depth int) *model.Ex {
	k := r.Intn(10)
	if depth <= 0 {
		k = r.Intn(4)
	}
	switch {
	case k < 2:
		return model.Lit(ordLits[r.Intn(len(ordLits))])
	case k < 4:
		return &model.Ex{Kind: model.XRef, Name: g.name(r)}
	case k < 7:
		return &model.Ex{Kind: model.XDef, Name: g.name(r), Rhs: g.gen(r, depth-1)}
	case k < 9:
		return &model.Ex{Kind: model.XAlt, Name: g.name(r), Rhs: g.gen(r, depth-1)}
	}
	c := &model.Ex{Kind: model.XCat}
	for i := 0; i < 2; i++ {
		c.Kids = append(c.Kids, g.gen(r, depth-1))
	}
	return c
}

func runOrder(res *harness.R, r *rand.Rand, idx int, verbose bool) {
	for sub := 0; sub < 3; sub++ {
		if !runOrderWorld(res, r, idx, verbose) {
			return
		}
	}
}

func runOrderWorld(res *harness.R, r *rand.Rand, idx int, verbose bool) bool {
	nset := 3 + r.Intn(3)
	used := append([]string{}, ordNames...)
	r.Shuffle(len(used), func(i, j int) { used[i], used[j] = used[j], used[i] })
	used = used[:nset]
	sort.Strings(used)
	// the expressions refer to the settings of the tree and now and then to a
	// name the tree does not hold
	g := ordGen{names: append(append([]string{}, used...), used...)}
	g.names = append(g.names, "zz")
	w := &model.World{Root: map[string]*model.Setting{}}
	for _, n := range used {
		if r.Intn(8) == 0 {
			w.Root[n] = &model.Setting{Ex: model.Lit(ordLits[r.Intn(len(ordLits))])}
			continue
		}
		w.Root[n] = &model.Setting{Ex: g.gen(r, 1+r.Intn(3)).Normalize()}
	}
	if r.Intn(4) == 0 {
		env := map[string]string{}
		for _, n := range append(append([]string{}, used...), "zz") {
			if r.Intn(3) == 0 {
				env[n] = "envQ" + n
			}
		}
		w.Envs = append(w.Envs, env)
	}
	if r.Intn(4) == 0 {
		rs := map[string]string{}
		for _, n := range append(append([]string{}, used...), "zz") {
			if r.Intn(3) == 0 {
				rs[n] = "resQ" + n
			}
		}
		w.Ress = append(w.Ress, rs)
	}
	desc := "order: " + describe(w)

	data := map[string]interface{}{}
	for _, n := range used {
		data[n] = w.Root[n].Ex.Render(false)
	}
	opts := append([]ucfg.Option{}, vx.BaseOpts...)
	var cfg *ucfg.Config
	var err error
	if p, pv, where := harness.Safe(func() {
		if cfg, err = ucfg.NewFrom(data, vx.BaseOpts...); err != nil {
			return
		}
		for _, env := range w.Envs {
			em := map[string]interface{}{}
			for k, v := range env {
				em[k] = v
			}
			var ec *ucfg.Config
			if ec, err = ucfg.NewFrom(em, ucfg.PathSep(".")); err != nil {
				return
			}
			opts = append(opts, ucfg.Env(ec))
		}
	}); p {
		res.Violate("panic", "panic %q at %s building %s", pv, where, desc)
		return false
	}
	res.Eval(1)
	if err != nil {
		res.Violate("build-error", "building the configuration failed: %v; %s", err, desc)
		return false
	}
	for _, m := range w.Ress {
		m := m
		opts = append(opts, ucfg.Resolve(func(n string) (string, parse.Config, error) {
			if v, ok := m[n]; ok {
				return v, parse.NoopConfig, nil
			}
			return "", parse.NoopConfig, ucfg.ErrMissing
		}))
	}

	// the statement: one value per setting
	type exp struct {
		want    interface{}
		wantStr string
	}
	wants := map[string]exp{}
	var ok []string
	absorbed := false
	for _, n := range used {
		want, mres, tr := expected(w, n)
		if tr.Budget {
			return true
		}
		if mres.IsErr || mres.Container {
			res.SetAdd("order_settings_left_out", classOf(mres))
			continue
		}
		if mres.S != "" && !vx.ParseNeutral(mres.S) {
			continue
		}
		if tr.Absorbed {
			absorbed = true
		}
		wants[n] = exp{want, mres.S}
		ok = append(ok, n)
	}
	if len(ok) < 2 {
		return true
	}
	res.Ev("order_worlds", 1)
	if absorbed {
		res.Ev("order_worlds_with_a_cycle_absorbed_by_an_operator_or_resolver", 1)
	}
	res.Key(desc)

	// every setting alone, a call of its own
	alone := map[string]string{}
	aloneOK := map[string]bool{}
	for _, n := range ok {
		var s string
		var gerr error
		if p, pv, where := harness.Safe(func() { s, gerr = cfg.String(n, -1, opts...) }); p {
			res.Violate("panic", "panic %q at %s reading %q; %s", pv, where, n, desc)
			return false
		}
		res.Eval(1)
		alone[n] = s
		aloneOK[n] = gerr == nil && s == wants[n].wantStr
		if !aloneOK[n] {
			sig := "substitution-mismatch"
			if gerr != nil {
				sig = "resolvable-reference-fails"
			}
			res.Violate(sig, "String(%q) read alone = %q, %v, the statement yields %q; %s", n, s, gerr, wants[n].wantStr, desc)
			return false
		}
	}

	// several settings in ONE call, in random orders
	judge := func(how string, order []string, got func(n string) interface{}) bool {
		for i, n := range order {
			g := got(n)
			same := false
			if s, isStr := g.(string); isStr {
				same = s == wants[n].wantStr
			}
			if !same {
				same = model.CanonIfc(g) == model.CanonIfc(wants[n].want)
			}
			if same {
				continue
			}
			res.Violate("value-of-a-setting-depends-on-the-settings-read-before-it-in-the-same-call", "%s in the order %v: %q (position %d) = %#v, the statement yields %q and so does the setting read alone (%q); %s", how, order, n, i, g, wants[n].wantStr, alone[n], desc)
			return false
		}
		return true
	}
	for round, rounds := 0, 2+r.Intn(2); round < rounds; round++ {
		order := append([]string{}, ok...)
		r.Shuffle(len(order), func(i, j int) { order[i], order[j] = order[j], order[i] })
		if round == 0 && r.Intn(2) == 0 {
			// a subset: the settings left out are never read by this call
			order = order[:2+r.Intn(len(order)-1)]
		}
		ft := reflect.TypeOf("")
		how := "one Unpack into string fields"
		if r.Intn(2) == 0 {
			ft = reflect.TypeOf((*interface{})(nil)).Elem()
			how = "one Unpack into interface{} fields"
		}
		var fields []reflect.StructField
		for i, n := range order {
			fields = append(fields, reflect.StructField{Name: fmt.Sprintf("F%d", i), Type: ft, Tag: reflect.StructTag(fmt.Sprintf(`config:"%s"`, n))})
		}
		p := reflect.New(reflect.StructOf(fields))
		var uerr error
		if pn, pv, where := harness.Safe(func() { uerr = cfg.Unpack(p.Interface(), opts...) }); pn {
			res.Violate("panic", "panic %q at %s unpacking %v; %s", pv, where, order, desc)
			return false
		}
		res.Eval(1)
		res.Ev("order_unpacks_of_several_settings_in_one_call", 1)
		res.SetAdd("order_fields_per_unpack", fmt.Sprintf("%d", len(order)))
		if uerr != nil {
			res.Violate("settings-that-read-alone-fail-when-read-in-one-call", "%s in the order %v failed with %v, every one of them reads alone (%v); %s", how, order, uerr, alone, desc)
			return false
		}
		pos := map[string]int{}
		for i, n := range order {
			pos[n] = i
		}
		if !judge(how, order, func(n string) interface{} { return p.Elem().Field(pos[n]).Interface() }) {
			return false
		}
	}
	if len(ok) == len(used) {
		// the whole tree in one call (no setting of it fails)
		m := map[string]interface{}{}
		var uerr error
		if pn, pv, where := harness.Safe(func() { uerr = cfg.Unpack(&m, opts...) }); pn {
			res.Violate("panic", "panic %q at %s unpacking the whole tree; %s", pv, where, desc)
			return false
		}
		res.Eval(1)
		res.Ev("order_whole_tree_unpacks", 1)
		if uerr != nil {
			res.Violate("settings-that-read-alone-fail-when-read-in-one-call", "one Unpack of the whole tree into a map failed with %v, every setting reads alone (%v); %s", uerr, alone, desc)
			return false
		}
		if !judge("one Unpack of the whole tree into a map", ok, func(n string) interface{} { return m[n] }) {
			return false
		}
	}
	if verbose {
		fmt.Printf("order world ok: %s -> %v\n", desc, alone)
	}
	return true
}
