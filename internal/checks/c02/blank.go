package c02

// Eighth workload of C02 (sixth wave, second batch): an expansion RESULT made
// of white space only is still the text with every reference replaced.
//
// One tree per case with 1-3 settings (top level b0, nested s.b1, element 1 of
// the list l) whose text is a concatenation of 1-3 pieces, each piece bringing
// a text known by construction that consists of blanks / tabs / newlines only
// (or, rarely, of nothing): a literal, a reference to a plain string of the
// tree, ${unset:BL}, ${emptyset:BL}, ${set:+BL}, an Env value, a resolver
// answer (under NoopConfig / EnvConfig / DefaultConfig), a default that is
// itself a reference, a reference to a setting whose own expansion yields
// blanks. At least one piece is no literal, so the setting is a string with
// expansions (or exactly one reference / one operator).
//
// Oracle: the statement ("reading it yields the text with every reference
// replaced") - the result is a STRING, never null / a skipped field / an
// error. For a setting that is exactly one reference to a plain string of the
// tree or of an Env configuration it is that string ("takes the referenced
// value with its type"). For every other form the substituted text passes the
// documented text->value step, which trims: accepted are the blanks themselves
// and the trimmed (empty) text, but all read paths of one setting must agree
// on the reading (see Assumptions).

import (
	"fmt"
	"math/rand"
	"sort"
	"strings"

	ucfg "github.com/elastic/go-ucfg"
	"github.com/elastic/go-ucfg/parse"

	"verif/internal/harness"
)

var blankPool = []string{" ", "  ", "\t", "\n", " \t", "\t\n ", "   ", "\n\n", "\t\t", " \n"}

type blankAns struct {
	text string
	cfg  parse.Config
	how  string
}

type blankGen struct {
	r    *rand.Rand
	tree map[string]interface{}
	env  map[string]interface{}
	ans  map[string]blankAns
	n    int
}

func (g *blankGen) fresh(prefix string) string {
	g.n++
	return fmt.Sprintf("%s%d", prefix, g.n)
}

func (g *blankGen) blank() string { return blankPool[g.r.Intn(len(blankPool))] }

// piece: source text, the text it contributes to the result, its kind.
func (g *blankGen) piece(depth int, noLit bool) (src, text, kind string) {
	r := g.r
	for {
		switch k := r.Intn(9); k {
		case 0:
			if noLit {
				continue
			}
			t := g.blank()
			return t, t, "literal"
		case 1:
			n, t := g.fresh("p"), g.blank()
			if r.Intn(6) == 0 {
				t = ""
			}
			g.tree[n] = t
			return "${" + n + "}", t, "tree-string"
		case 2:
			t := g.blank()
			return "${" + g.fresh("u") + ":" + t + "}", t, "default-of-unset"
		case 3:
			n, t := g.fresh("e"), g.blank()
			g.tree[n] = ""
			return "${" + n + ":" + t + "}", t, "default-of-empty"
		case 4:
			n, t := g.fresh("a"), g.blank()
			g.tree[n] = []string{"v", " "}[r.Intn(2)]
			return "${" + n + ":+" + t + "}", t, "alternative"
		case 5:
			n, t := g.fresh("v"), g.blank()
			g.env[n] = t
			return "${" + n + "}", t, "env-string"
		case 6:
			n, t := g.fresh("r"), g.blank()
			a := []blankAns{{t, parse.NoopConfig, "Noop"}, {t, parse.EnvConfig, "Env"}, {t, parse.DefaultConfig, "Default"}}[r.Intn(3)]
			g.ans[n] = a
			return "${" + n + "}", t, "resolver-answer-" + a.how
		case 7:
			if depth <= 0 {
				continue
			}
			is, it, ik := g.piece(depth-1, true)
			return "${" + g.fresh("u") + ":" + is + "}", it, "default-holding-" + ik
		default:
			n := g.fresh("s")
			a, at := g.fresh("p"), g.blank()
			b, bt := g.fresh("p"), g.blank()
			g.tree[a], g.tree[b] = at, bt
			g.tree[n] = "${" + a + "}${" + b + "}"
			return "${" + n + "}", at + bt, "setting-with-blank-expansion"
		}
	}
}

type blankSetting struct {
	place  string // top, nested, list
	src    string
	text   string
	kinds  []string
	strict bool   // exactly one reference to a plain string of the tree / an Env configuration
	form   string // for the sig
}

func (g *blankGen) setting(place string) blankSetting {
	s := blankSetting{place: place}
	n := 1 + g.r.Intn(3)
	must := g.r.Intn(n)
	for i := 0; i < n; i++ {
		src, text, kind := g.piece(1, i == must)
		s.src += src
		s.text += text
		s.kinds = append(s.kinds, kind)
	}
	switch {
	case n > 1:
		s.form = "text-with-expansions"
	case s.kinds[0] == "tree-string" || s.kinds[0] == "env-string":
		s.form, s.strict = "single-reference-to-a-string", true
	case strings.HasPrefix(s.kinds[0], "resolver-answer"):
		s.form = "single-reference-to-a-resolver-answer"
	case s.kinds[0] == "setting-with-blank-expansion":
		s.form = "single-reference-to-a-setting-with-expansions"
	default:
		s.form = "single-operator"
	}
	return s
}

func blankChars(t string) string {
	var cs []string
	for _, c := range []struct{ c, n string }{{" ", "space"}, {"\t", "tab"}, {"\n", "newline"}} {
		if strings.Contains(t, c.c) {
			cs = append(cs, c.n)
		}
	}
	if len(cs) == 0 {
		return "nothing"
	}
	return strings.Join(cs, "+")
}

func runBlank(res *harness.R, r *rand.Rand, idx int, verbose bool) {
	g := &blankGen{r: r, tree: map[string]interface{}{}, env: map[string]interface{}{}, ans: map[string]blankAns{}}
	var sets []blankSetting
	for _, place := range []string{"top", "nested", "list"} {
		if r.Intn(3) != 0 {
			sets = append(sets, g.setting(place))
		}
	}
	if len(sets) == 0 {
		sets = append(sets, g.setting([]string{"top", "nested", "list"}[r.Intn(3)]))
	}
	root := map[string]interface{}{}
	for k, v := range g.tree {
		root[k] = v
	}
	has := map[string]bool{}
	for _, s := range sets {
		has[s.place] = true
		switch s.place {
		case "top":
			root["b0"] = s.src
		case "nested":
			root["s"] = map[string]interface{}{"b1": s.src, "other": "x"}
		case "list":
			root["l"] = []interface{}{"x0", s.src, "x2"}
		}
	}
	var descParts []string
	{
		var ks []string
		for k := range root {
			ks = append(ks, k)
		}
		sort.Strings(ks)
		for _, k := range ks {
			descParts = append(descParts, fmt.Sprintf("%s=%q", k, root[k]))
		}
	}
	desc := fmt.Sprintf("blank world: root{%s} env=%q resolver=%q", strings.Join(descParts, ", "), g.env, fmt.Sprint(g.ans))

	opts := []ucfg.Option{ucfg.PathSep("."), ucfg.VarExp}
	var c *ucfg.Config
	var err error
	if p, pv, where := harness.Safe(func() {
		if len(g.env) > 0 || r.Intn(3) == 0 {
			envOpts := []ucfg.Option{ucfg.PathSep(".")}
			if r.Intn(2) == 0 {
				envOpts = append(envOpts, ucfg.VarExp)
			}
			var e *ucfg.Config
			e, err = ucfg.NewFrom(g.env, envOpts...)
			if err != nil {
				return
			}
			opts = append(opts, ucfg.Env(e))
		}
		if len(g.ans) > 0 || r.Intn(3) == 0 {
			ownErr := r.Intn(2) == 0
			opts = append(opts, ucfg.Resolve(func(n string) (string, parse.Config, error) {
				if a, ok := g.ans[n]; ok {
					return a.text, a.cfg, nil
				}
				if ownErr {
					return "", parse.NoopConfig, fmt.Errorf("no variable %q", n)
				}
				return "", parse.NoopConfig, ucfg.ErrMissing
			}))
		}
		c, err = ucfg.NewFrom(root, opts...)
	}); p {
		res.Violate("panic", "panic %q at %s building %s", pv, where, desc)
		return
	}
	res.Eval(1)
	if err != nil {
		res.Violate("build-error", "building the config failed: %v; %s", err, desc)
		return
	}
	res.Key(desc)

	// one Unpack of the whole tree into pre-filled targets
	type nestS struct {
		B string `config:"b1"`
	}
	type nestI struct {
		B interface{} `config:"b1"`
	}
	var whole map[string]interface{}
	ts := struct {
		B0 string   `config:"b0"`
		S  nestS    `config:"s"`
		L  []string `config:"l"`
	}{"preset", nestS{"preset"}, []string{"p0", "preset", "p2"}}
	ti := struct {
		B0 interface{}   `config:"b0"`
		S  nestI         `config:"s"`
		L  []interface{} `config:"l"`
	}{"preset", nestI{"preset"}, []interface{}{"p0", "preset", "p2"}}
	var werr, serr, ierr error
	if p, pv, where := harness.Safe(func() {
		werr = c.Unpack(&whole, opts...)
		serr = c.Unpack(&ts, opts...)
		ierr = c.Unpack(&ti, opts...)
	}); p {
		res.Violate("panic", "panic %q at %s unpacking %s", pv, where, desc)
		return
	}
	res.Eval(3)

	type reading struct {
		how string
		val interface{}
		err error
	}
	at := func(v interface{}, path ...interface{}) interface{} {
		for _, p := range path {
			switch k := p.(type) {
			case string:
				m, ok := v.(map[string]interface{})
				if !ok {
					return nil
				}
				v = m[k]
			case int:
				l, ok := v.([]interface{})
				if !ok || k >= len(l) {
					return nil
				}
				v = l[k]
			}
		}
		return v
	}
	for _, s := range sets {
		var reads []reading
		if p, pv, where := harness.Safe(func() {
			switch s.place {
			case "top":
				str, e := c.String("b0", -1, opts...)
				reads = append(reads, reading{"String()", str, e},
					reading{"Unpack(pre-filled string)", ts.B0, serr},
					reading{"Unpack(pre-filled interface{})", ti.B0, ierr},
					reading{"Unpack(map)", at(whole, "b0"), werr})
			case "nested":
				str, e := c.String("s.b1", -1, opts...)
				reads = append(reads, reading{"String()", str, e},
					reading{"Unpack(pre-filled string)", ts.S.B, serr},
					reading{"Unpack(pre-filled interface{})", ti.S.B, ierr},
					reading{"Unpack(map)", at(whole, "s", "b1"), werr})
				if ch, cerr := c.Child("s", -1, opts...); cerr != nil {
					reads = append(reads, reading{"Child(s)", nil, cerr})
				} else {
					str, e := ch.String("b1", -1, opts...)
					reads = append(reads, reading{"Child(s).String()", str, e})
					var t nestS
					t.B = "preset"
					e = ch.Unpack(&t, opts...)
					reads = append(reads, reading{"Child(s).Unpack(pre-filled string)", t.B, e})
				}
			case "list":
				str, e := c.String("l", 1, opts...)
				reads = append(reads, reading{"String(l, 1)", str, e})
				str, e = c.String("l.1", -1, opts...)
				reads = append(reads, reading{"String(l.1)", str, e})
				var sv, iv interface{}
				if len(ts.L) == 3 {
					sv = ts.L[1]
				}
				if len(ti.L) == 3 {
					iv = ti.L[1]
				}
				reads = append(reads, reading{"Unpack(pre-filled []string)", sv, serr},
					reading{"Unpack(pre-filled []interface{})", iv, ierr},
					reading{"Unpack(map)", at(whole, "l", 1), werr})
				if ch, cerr := c.Child("l", -1, opts...); cerr != nil {
					reads = append(reads, reading{"Child(l)", nil, cerr})
				} else {
					str, e := ch.String("1", -1, opts...)
					reads = append(reads, reading{"Child(l).String()", str, e})
				}
			}
		}); p {
			res.Violate("panic", "panic %q at %s reading the %s setting %q; %s", pv, where, s.place, s.src, desc)
			return
		}
		res.Eval(len(reads))
		res.Ev("blank_settings_read", 1)
		res.Ev("blank_reads", int64(len(reads)))
		res.SetAdd("blank_result_made_of", blankChars(s.text))
		res.SetAdd("blank_form", s.form)
		res.SetAdd("blank_placement", s.place)
		for _, k := range s.kinds {
			res.SetAdd("blank_piece_kind", k)
		}
		if s.text == "" {
			res.Ev("blank_results_that_are_empty", 1)
		} else {
			res.Ev("blank_results_of_white_space_only", 1)
			if len(s.kinds) > 1 {
				res.Ev("blank_results_concatenated_from_several_pieces", 1)
			}
		}
		sig := func(class string) string { return class + ":" + s.form }
		asItself, trimmed := "", ""
		for _, rd := range reads {
			res.SetAdd("blank_read_path", rd.how)
			if verbose {
				fmt.Printf("blank %s %q %s -> %#v err=%v (text %q)\n", s.place, s.src, rd.how, rd.val, rd.err, s.text)
			}
			if rd.err != nil {
				res.Violate(sig("blank-expansion-result-fails"), "%s of the %s setting %q failed with %v; the text with every reference replaced is %q; %s", rd.how, s.place, s.src, rd.err, s.text, desc)
				return
			}
			got, isStr := rd.val.(string)
			switch {
			case !isStr, got == "preset" || got == "null":
				res.Violate(sig("blank-expansion-result-reads-as-null"), "%s of the %s setting %q yields %#v (pre-filled targets hold \"preset\"); the text with every reference replaced is %q, a string; %s", rd.how, s.place, s.src, rd.val, s.text, desc)
				return
			case got == s.text:
				asItself = rd.how
			case got == "" && !s.strict:
				trimmed = rd.how
			case s.strict:
				res.Violate("blank-string-behind-a-single-reference-altered", "%s of the %s setting %q = %q, the referenced string is %q; %s", rd.how, s.place, s.src, got, s.text, desc)
				return
			default:
				res.Violate(sig("blank-expansion-result-altered"), "%s of the %s setting %q = %q; the text with every reference replaced is %q; %s", rd.how, s.place, s.src, got, s.text, desc)
				return
			}
		}
		if s.text != "" && asItself != "" && trimmed != "" {
			res.Violate(sig("blank-expansion-result-differs-between-read-paths"), "the %s setting %q (text %q) reads as the blanks themselves through %s but as the empty string through %s; %s", s.place, s.src, s.text, asItself, trimmed, desc)
			return
		}
		if s.text != "" {
			if trimmed != "" {
				res.Ev("blank_results_read_as_the_empty_string", 1)
			} else {
				res.Ev("blank_results_read_as_the_blanks_themselves", 1)
			}
		}
	}
	if idx < 2 && res.Sample == "" {
		res.Sample = desc
	}
}
