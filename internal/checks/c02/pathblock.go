package c02

// Fourth workload of C02: the lookup order "tree, then the Env configurations
// (most recently added first), then the resolvers (most recently added
// first)" for names of 2-4 segments when an earlier layer does not hold the
// name but holds something that is NOT an object at a proper prefix of it
// (a: 1 for ${a.b.c}). Such a layer does not define the name: the next layers
// are consulted. Every layer's value names the layer.
//
// Monitors only (not pinned down by the statement, see Assumptions):
//   - a computed name (${${nm}}) read with another PathSep than the one the
//     configuration was created with,
//   - names whose value is null under the operators.

import (
	"fmt"
	"math/rand"
	"reflect"
	"sort"
	"strings"

	ucfg "github.com/elastic/go-ucfg"
	"github.com/elastic/go-ucfg/parse"

	"verif/internal/harness"
	"verif/internal/vx"
)

type pbLayer struct {
	kind    string // tree, env, res
	label   string
	defines bool // holds the name, value = label+"V"
	block   int  // > 0: holds a non-object at the prefix of that many segments
	blockV  interface{}
	blockAs string
	empty   string // env: "nil" = Env(nil), "zero" = Env(&ucfg.Config{}): holds nothing
	ownErr  bool   // resolver: unknown names are answered with an error of its own, not ErrMissing
}

type pbCase struct {
	segs   []string
	name   string
	sep    string     // PathSep the configurations are created with (sixth wave: not always ".")
	layers []*pbLayer // in lookup order
	op     string     // ref, splice, default, alt, err, computed
}

func genPathBlock(r *rand.Rand) *pbCase {
	c := &pbCase{}
	pool := [][]string{{"a", "m"}, {"b", "n"}, {"c"}, {"d"}}
	for i, n := 0, 2+r.Intn(3); i < n; i++ {
		c.segs = append(c.segs, pool[i][r.Intn(len(pool[i]))])
	}
	nenv, nres := r.Intn(3), r.Intn(3)
	c.layers = append(c.layers, &pbLayer{kind: "tree", label: "tree"})
	for i := nenv - 1; i >= 0; i-- {
		c.layers = append(c.layers, &pbLayer{kind: "env", label: fmt.Sprintf("env%d", i)})
	}
	for i := nres - 1; i >= 0; i-- {
		c.layers = append(c.layers, &pbLayer{kind: "res", label: fmt.Sprintf("res%d", i)})
	}
	for _, l := range c.layers {
		l.ownErr = l.kind == "res" && r.Intn(2) == 0
		if l.kind == "env" && r.Intn(4) == 0 {
			// an Env configuration without settings: nil (an optional environment
			// that was not loaded) or the zero Config
			l.empty = []string{"nil", "zero"}[r.Intn(2)]
			continue
		}
		switch k := r.Intn(6); {
		case k < 2:
			l.defines = true
		case k < 4 && l.kind != "res":
			l.block = 1 + r.Intn(len(c.segs)-1)
			j := r.Intn(4)
			l.blockV = []interface{}{1, "word", true, 2.5}[j]
			l.blockAs = []string{"1", "\"word\"", "true", "2.5"}[j]
			if l.kind == "tree" && r.Intn(3) == 0 {
				// the non-object is reached through a reference
				l.blockV, l.blockAs = "${prim}", "\"${prim}\" (prim=1)"
			}
		}
	}
	c.op = []string{"ref", "ref", "splice", "default", "alt", "err", "computed"}[r.Intn(7)]
	// sixth wave: the separator the configurations are created with
	c.sep = []string{".", ".", "/", "|"}[r.Intn(4)]
	c.name = strings.Join(c.segs, c.sep)
	return c
}

// base: the options the configurations are created (and first read) with.
func (c *pbCase) base() []ucfg.Option { return []ucfg.Option{ucfg.PathSep(c.sep), ucfg.VarExp} }

func (c *pbCase) text() string {
	switch c.op {
	case "ref":
		return "${" + c.name + "}"
	case "splice":
		return "pre-${" + c.name + "}"
	case "default":
		return "${" + c.name + ":dflt}"
	case "alt":
		return "${" + c.name + ":+yes}"
	case "err":
		return "${" + c.name + ":?boom}"
	}
	return "${${nm}}"
}

func (l *pbLayer) data(c *pbCase) map[string]interface{} {
	m := map[string]interface{}{}
	if l.defines {
		m[c.name] = l.label + "V"
	}
	if l.block > 0 {
		m[strings.Join(c.segs[:l.block], c.sep)] = l.blockV
	}
	return m
}

func (c *pbCase) describe() string {
	var parts []string
	for _, l := range c.layers {
		s := l.label + "{"
		if l.empty != "" {
			s = l.label + "(" + l.empty + " Config){"
		}
		if l.ownErr {
			s = l.label + "(own error for unknown names){"
		}
		if l.defines {
			s += c.name + "=" + l.label + "V"
		}
		if l.block > 0 {
			s += strings.Join(c.segs[:l.block], c.sep) + "=" + l.blockAs
		}
		parts = append(parts, s+"}")
	}
	return fmt.Sprintf("lookup: t=%q (nm=%q) created with PathSep(%q) layers in lookup order: %s", c.text(), c.name, c.sep, strings.Join(parts, " "))
}

func runPathBlock(res *harness.R, r *rand.Rand, idx int, verbose bool) {
	c := genPathBlock(r)
	desc := c.describe()
	tree := c.layers[0].data(c)
	tree["t"] = c.text()
	tree["nm"] = c.name
	tree["prim"] = 1
	base := c.base()
	opts := append([]ucfg.Option{}, base...)
	var cfg *ucfg.Config
	var err error
	calls := map[string]int{}
	if p, pv, where := harness.Safe(func() {
		if cfg, err = ucfg.NewFrom(tree, base...); err != nil {
			return
		}
		// options in the order added: oldest first
		for i := len(c.layers) - 1; i >= 1; i-- {
			l := c.layers[i]
			if l.kind != "env" {
				continue
			}
			var e *ucfg.Config
			switch l.empty {
			case "nil":
			case "zero":
				e = &ucfg.Config{}
			default:
				if e, err = ucfg.NewFrom(l.data(c), base...); err != nil {
					return
				}
			}
			opts = append(opts, ucfg.Env(e))
		}
	}); p {
		res.Violate("panic", "panic %q at %s building %s", pv, where, desc)
		return
	}
	res.Eval(1)
	if err != nil {
		res.Violate("build-error", "building the configurations failed: %v; %s", err, desc)
		return
	}
	for i := len(c.layers) - 1; i >= 1; i-- {
		l := c.layers[i]
		if l.kind != "res" {
			continue
		}
		opts = append(opts, ucfg.Resolve(func(n string) (string, parse.Config, error) {
			calls[l.label]++
			if l.defines && n == c.name {
				return l.label + "V", parse.NoopConfig, nil
			}
			if l.ownErr {
				return "", parse.NoopConfig, fmt.Errorf("%s has no variable %q", l.label, n)
			}
			return "", parse.NoopConfig, ucfg.ErrMissing
		}))
	}

	// the statement: the first layer in lookup order that holds the name
	var found *pbLayer
	blockedBefore := ""
	nilBefore := false
	for _, l := range c.layers {
		if l.defines {
			found = l
			break
		}
		if l.empty == "nil" {
			nilBefore = true
		}
		if l.block > 0 && blockedBefore == "" {
			blockedBefore = l.kind
		}
	}
	wantErr, want := false, ""
	switch c.op {
	case "ref", "computed":
		wantErr = found == nil
		if found != nil {
			want = found.label + "V"
		}
	case "splice":
		wantErr = found == nil
		if found != nil {
			want = "pre-" + found.label + "V"
		}
	case "default":
		want = "dflt"
		if found != nil {
			want = found.label + "V"
		}
	case "alt":
		if found != nil {
			want = "yes"
		}
	default:
		wantErr = found == nil
		if found != nil {
			want = found.label + "V"
		}
	}
	res.Ev("lookup_cases", 1)
	res.Key(desc)
	if blockedBefore != "" && found != nil {
		res.Ev("lookup_cases_with_a_non_object_on_the_path_in_an_earlier_layer", 1)
		res.SetAdd("lookup_non_object_before_defining_layer", fmt.Sprintf("%s-before-%s/%dseg/%s", blockedBefore, found.kind, len(c.segs), c.op))
	}
	if nilBefore && found != nil {
		res.Ev("lookup_cases_with_a_nil_env_before_the_defining_layer", 1)
	}
	sig := func() string {
		switch {
		case nilBefore && found != nil:
			return "nil-env-hides-later-layers"
		case blockedBefore != "" && found != nil && found.kind == "res":
			return "non-object-on-reference-path-blocks-resolvers"
		case blockedBefore != "" && found != nil && found.kind == "env":
			return "non-object-on-reference-path-blocks-env"
		case blockedBefore != "" && found == nil && !wantErr:
			return "non-object-on-reference-path-breaks-operator"
		}
		return "layer-lookup-mismatch"
	}

	type reading struct {
		how string
		val interface{}
		err error
	}
	var reads []reading
	if p, pv, where := harness.Safe(func() {
		s, err := cfg.String("t", -1, opts...)
		reads = append(reads, reading{"lookup String()", s, err})
		v, err := vx.ReadField(cfg, "t", nil, opts)
		reads = append(reads, reading{"lookup Unpack(interface{})", v, err})
		v, err = vx.ReadField(cfg, "t", reflect.TypeOf(""), opts)
		reads = append(reads, reading{"lookup Unpack(string)", v, err})
	}); p {
		res.Violate("panic", "panic %q at %s reading t; %s", pv, where, desc)
		return
	}
	res.Eval(len(reads))
	for _, rd := range reads {
		res.SetAdd("read_path", rd.how)
		if verbose {
			fmt.Printf("%s -> %#v err=%v (want %q err=%v)\n", rd.how, rd.val, rd.err, want, wantErr)
		}
		switch {
		case wantErr && rd.err == nil:
			res.Violate("unresolvable-reference-not-an-error", "%s of \"t\" returned %#v without error, no layer holds %q; %s", rd.how, rd.val, c.name, desc)
			return
		case wantErr:
			if c.op == "err" && !vx.MentionsMsg(rd.err, "boom") {
				res.Violate("error-operator-message-lost", "%s of \"t\" failed with %v, expected the message \"boom\"; %s", rd.how, rd.err, desc)
				return
			}
		case rd.err != nil:
			res.Violate(sig(), "%s of \"t\" failed with %v, the statement yields %q (resolver calls %v); %s", rd.how, rd.err, want, calls, desc)
			return
		case fmt.Sprint(rd.val) != want:
			res.Violate(sig(), "%s of \"t\" = %#v, the statement yields %q (resolver calls %v); %s", rd.how, rd.val, want, calls, desc)
			return
		}
	}

	// --- sixth wave: the reading call brings another PathSep or none ---
	// A name written in the text was split into its segments when the text was
	// parsed (Merge / NewFrom, with the separator given there); what the setting
	// yields does not depend on the separator of the call that reads it. Judged
	// for literal names in every form (lone reference, text, the three
	// operators); for a COMPUTED name (${${nm}}) the statement does not say whose
	// options split it: observed only.
	other := "/"
	if c.sep == "/" {
		other = "."
	}
	res.SetAdd("lookup_created_with_pathsep", c.sep)
	for _, alt := range []struct {
		n    string
		opts []ucfg.Option
	}{
		{"no-pathsep", []ucfg.Option{ucfg.VarExp}},
		{"pathsep-" + other, []ucfg.Option{ucfg.VarExp, ucfg.PathSep(other)}},
		{"no-options-but-the-layers", nil},
	} {
		ro := append(append([]ucfg.Option{}, alt.opts...), opts[len(base):]...)
		var s string
		var v interface{}
		var rerr, uerr error
		if p, pv, where := harness.Safe(func() {
			s, rerr = cfg.String("t", -1, ro...)
			v, uerr = vx.ReadField(cfg, "t", nil, ro)
		}); p {
			res.Violate("panic", "panic %q at %s reading t with %s; %s", pv, where, alt.n, desc)
			return
		}
		res.Eval(2)
		if c.op == "computed" {
			// monitor only
			same := (rerr != nil) == (reads[0].err != nil) && (rerr != nil || s == reads[0].val)
			res.SetAdd("read_with_other_pathsep_than_creation", fmt.Sprintf("computed-name/%s/same-outcome=%v", alt.n, same))
			if !same {
				res.Ev("read_with_other_pathsep_than_creation_differs:computed-name", 1)
			}
			continue
		}
		res.Ev("lookup_reads_with_another_pathsep_than_creation_judged", 2)
		res.SetAdd("lookup_read_with_other_pathsep", fmt.Sprintf("created-%s/read-%s/%s/defined=%v", c.sep, alt.n, c.op, found != nil))
		for _, rd := range []reading{{"String() " + alt.n, s, rerr}, {"Unpack(interface{}) " + alt.n, v, uerr}} {
			bad := ""
			switch {
			case wantErr && rd.err == nil:
				bad = fmt.Sprintf("returned %#v without error, no layer holds %q", rd.val, c.name)
			case wantErr:
			case rd.err != nil:
				bad = fmt.Sprintf("failed with %v, the statement yields %q", rd.err, want)
			case fmt.Sprint(rd.val) != want:
				bad = fmt.Sprintf("= %#v, the statement yields %q", rd.val, want)
			}
			if bad != "" {
				// the same read with the separator of creation agreed with the
				// statement (above): the deviation is the reading call's separator
				res.Violate("name-of-a-reference-split-at-the-separator-of-the-reading-call:"+c.op, "%s of \"t\" %s (read with the options of creation: %#v, %v); %s", rd.how, bad, reads[0].val, reads[0].err, desc)
				return
			}
		}
	}
	// (2) a name whose value is null
	if idx%4 == 0 {
		nullProbe(res, r)
	}
	if idx%4 == 1 {
		emptyAnswer(res, r)
	}
}

// emptyAnswer: the most recently added resolver answers the name with the
// empty string and no error (an older one may know a value). Whether that
// counts as "set and empty" or as "not found here" is not said by the
// statement, but it must be the same thing in every form: what the lone
// reference ${n} reads decides what the text p${n}q and the operators yield.
func emptyAnswer(res *harness.R, r *rand.Rand) {
	name := []string{"x", "a.b"}[r.Intn(2)]
	k := r.Intn(3)
	pc := []parse.Config{parse.NoopConfig, parse.EnvConfig, parse.DefaultConfig}[k]
	older := r.Intn(2) == 0
	data := map[string]interface{}{
		"lone": "${" + name + "}", "splice": "p${" + name + "}q", "alt": "${" + name + ":+a}",
		"def": "${" + name + ":dflt}", "err": "${" + name + ":?m}",
	}
	desc := fmt.Sprintf("empty answer: config%v, newest resolver answers %q with \"\" and no error (parse config %d), older resolver knowing \"older\": %v", data, name, k, older)
	opts := append([]ucfg.Option{}, vx.BaseOpts...)
	if older {
		opts = append(opts, ucfg.Resolve(func(n string) (string, parse.Config, error) {
			if n == name {
				return "older", pc, nil
			}
			return "", pc, ucfg.ErrMissing
		}))
	}
	opts = append(opts, ucfg.Resolve(func(n string) (string, parse.Config, error) {
		if n == name {
			return "", pc, nil
		}
		return "", pc, ucfg.ErrMissing
	}))
	out := map[string]string{}
	errs := map[string]error{}
	if p, pv, where := harness.Safe(func() {
		cfg, err := ucfg.NewFrom(data, vx.BaseOpts...)
		if err != nil {
			errs["build"] = err
			return
		}
		for k := range data {
			out[k], errs[k] = cfg.String(k, -1, opts...)
		}
	}); p {
		res.Violate("panic", "panic %q at %s; %s", pv, where, desc)
		return
	}
	res.Eval(6)
	if errs["build"] != nil {
		res.Violate("build-error", "%v; %s", errs["build"], desc)
		return
	}
	res.Ev("empty_resolver_answer_probes", 1)
	set, val := errs["lone"] == nil, out["lone"]
	res.SetAdd("empty_resolver_answer_lone_reference", fmt.Sprintf("resolved=%v value=%q older=%v", set, val, older))
	want := map[string]string{"splice": "p" + val + "q", "alt": "a", "def": val, "err": val}
	wantErr := map[string]bool{}
	if !set {
		want["alt"] = ""
		wantErr["splice"] = true
	}
	if !set || val == "" {
		want["def"] = "dflt"
		wantErr["err"] = true
	}
	for _, k := range []string{"splice", "alt", "def", "err"} {
		if wantErr[k] != (errs[k] != nil) || (!wantErr[k] && out[k] != want[k]) {
			res.Violate("empty-resolver-answer-counts-as-set-in-the-lone-reference-but-not-in-"+map[string]string{"splice": "a-text", "alt": "the-alternative-operator", "def": "the-default-operator", "err": "the-error-operator"}[k],
				"the lone reference reads %q, %v but %q reads %q, %v (expected %q, error=%v); %s", val, errs["lone"], data[k], out[k], errs[k], want[k], wantErr[k], desc)
			return
		}
	}
}

func nullProbe(res *harness.R, r *rand.Rand) {
	data := map[string]interface{}{"x": nil, "def": "${x:d}", "err": "${x:?m}", "alt": "${x:+a}", "ref": "${x}", "splice": "v${x}"}
	var cfg *ucfg.Config
	var err error
	if p, pv, where := harness.Safe(func() { cfg, err = ucfg.NewFrom(data, vx.BaseOpts...) }); p || err != nil {
		if p {
			res.Violate("panic", "panic %q at %s building %v", pv, where, data)
		}
		return
	}
	keys := []string{"def", "err", "alt", "ref", "splice"}
	sort.Strings(keys)
	for _, k := range keys {
		var s string
		var rerr error
		if p, pv, where := harness.Safe(func() { s, rerr = cfg.String(k, -1, vx.BaseOpts...) }); p {
			res.Violate("panic", "panic %q at %s reading %q of %v", pv, where, k, data)
			return
		}
		res.Eval(1)
		out := fmt.Sprintf("%q", s)
		if rerr != nil {
			out = "error"
		}
		res.SetAdd("null_valued_name_observed", fmt.Sprintf("%s=%v -> %s", k, data[k], out))
	}
	res.Ev("null_valued_name_probes", 1)
}
