// Package c02: variable expansion is late-bound substitution with a fixed lookup order.
package c02

import (
	"fmt"
	"math/rand"
	"reflect"
	"sort"
	"strings"

	ucfg "github.com/elastic/go-ucfg"
	"github.com/elastic/go-ucfg/parse"

	"verif/internal/harness"
	"verif/internal/model"
	"verif/internal/vx"
)

type check struct{}

func init() { harness.Register(check{}) }

func (check) ID() string { return "C02" }

func (check) Cases(tier string) int {
	if tier == "thorough" {
		return 300000
	}
	return 4000
}

func (check) Rule() string {
	return "(1) worlds of 1-6 settings (top-level and nested under s.) whose strings are expression trees of depth <= 3 (quick) / 5 over literals (incl. $ } : and blanks, with $ and } at the start, in the middle and at the END of a literal, so escape sequences sit at every position of a string including its last two characters; outside ${} a } is spelled } or $} at random, the respelled text being merged later), references (also with computed names), default/alternative/error operators and escapes, plus typed plain settings (int, uint, float, bool, object, list); every referenced name is placed on a random subset of the layers root / 0-2 Env configs / 0-2 resolvers (incl. zero resolvers), each layer's value naming the layer; the root is built by one merge or by several merges in random order with values overwritten later (late binding). Every expression setting is read through String(), Unpack into interface{} and string fields, and (nested ones) a Child handle, and compared with the model evaluator; resolver call order is monitored. (2) forests (forest.go): 3-6 small source configurations and 1-3 trees over 8 totally ordered names (2 plain values naming their tree, 6 expressions over the names before them, so no cycles); every tree is assembled by 2-6 merges in random order of Go data, of source configurations and of trees built earlier (Merge of a *Config: the same expression gets copied into several trees, in which the names it refers to have different values or are missing), 0-2 resolvers; every tree is read in turn with all the other trees as Env configurations: each setting through String(), Unpack into interface{} / string fields, a Child handle, and the whole tree through one Unpack into a map, compared with an evaluator that expands every expression against the tree it lives in, then the Env configurations most recently added first, then the resolvers. (3) expansion results are data (data.go): one setting built from a template (comma list, bracket list, nested list, object, object of list, plain text, bare) around a carrier that brings a marker text such as ${x}, ${x:oops}, ${x:+oops}, ${x:?oops} (alone or inside a text that is a list itself) into the RESULT of the expansion: an escape in the setting itself, a plain string of the tree, a setting whose own expansion yields the marker, an Env value (Env built without VarExp), a resolver answer under Noop/Env/DefaultConfig; x is defined (canary) or undefined; with or without an extra empty reference that makes the setting a string with expansions. Expected = the resulting text (known by construction) after the documented text->value step (parse.ValueWithConfig); read whole (Unpack into interface{}, whole configuration into a map) and element by element (String with idx, String with a path below the setting). (4) lookup order for names of 2-4 segments (pathblock.go): tree / 0-2 Env / 0-2 resolvers, every layer defines the name (value names the layer), holds a non-object (int, string, bool, float, reference to an int) at a proper prefix of the name, or nothing; read through ${n}, pre-${n}, ${n:d}, ${n:+a}, ${n:?m}, ${${nm}}; expected = the first layer in lookup order that defines the name, a layer with a non-object on the path does not define it. Round 4: in (1) one world in three also holds 1-2 expressions nested 1-60 levels below the root (dp.n.n...n.vJ), each with a twin holding the same expression at the top level (read through String, Unpack and a Child handle half way down, and compared with the twin), and every resolver of (1), (2) and (4) answers unknown names either with ErrMissing or with an error of its own (the older resolvers are asked all the same); in (2) every third tree ranks the names in an order of its own, so that the same names refer to each other in opposite directions in two trees (one name being resolved in two trees at once is no cycle; reads in which the model enters the same setting of the same tree twice are C08's business and not compared); in (4) an Env layer may be Env(nil) or the zero Config (holds nothing, is skipped), and a probe demands that an EMPTY resolver answer means the same in the lone reference, in a text and under the three operators. (5) typed twin (typed.go): a value (null, int, uint, float, bool, strings, list, object) directly in the tree and reached by a setting that is exactly one reference (to the setting, through two references, to an Env value, to a resolver answer, as a list element); Unpack of both into 3 of 18 targets (pointers, numbers, pre-set string / interface{}, time.Duration and slices of it, *Config, map, an Unpacker) and one typed getter must have the same outcome. (6) late binding under Merge (latebind.go): a reference ${b} merged ONTO an object / list / primitive / reference / nothing, b (object, list, primitive) defined by the same operand, by the target before, or only later, then changed by a last merge: the setting reads as the current b. Round 5: (2) is run twice per case, the second time as a RELAY forest: 3-4 trees over few names (one plain value, four expressions), every tree ranking the names in an order of its own and holding about half of them, so that a read is relayed through several Env configurations and the same name is resolved in two of them at once; general forests have up to 4 trees, every second one with an order of its own, one in three thin. In (1) settings below s. are also read through the child configurations handed out by Unpack: a *Config struct field (a view of the setting), and the same field after a second and a third Unpack of an overlay into the same struct (a private copy of the view) - getter and Unpack, with the Env configurations and resolvers of the world. Round 6: in (4) the configurations are created with PathSep . / or | and, after the reads with the options of creation agreed with the statement, the setting is read again by calls that bring no PathSep, another PathSep, or no option but the layers (String and Unpack): for a literal name in every form (lone reference, text, ${n:d}, ${n:+a}, ${n:?m}) the outcome must be the same - the name was split when the text was parsed (a computed name is observed only). (7) order of reads within one call (order.go): three trees per case of 3-5 top-level settings over a..e whose expressions are rich in default / alternative operators and refer to each other in both directions (cycles absorbed by an operator are the rule), optionally one Env configuration and one resolver; every setting the evaluator gives a value is read alone (String), as a field of a struct in ONE Unpack call for 2-3 random field orders and subsets (string / interface{} fields), and by one Unpack of the whole tree into a map: always the one value of the evaluator. (8) blank results (blank.go): one tree per case with 1-3 settings (top level, below s., element 1 of a list) whose text concatenates 1-3 pieces each bringing blanks / tabs / newlines only (or nothing): a literal, a reference to a plain string of the tree, ${unset:BL}, ${emptyset:BL}, ${set:+BL}, an Env value, a resolver answer under Noop/Env/DefaultConfig, a default that is itself a reference, a reference to a setting whose own expansion yields blanks; read through String (path and idx), ONE Unpack into pre-filled string / interface{} fields and pre-filled []string / []interface{}, one Unpack into a map, a Child handle (String and Unpack): the result is a string (never null, a field left at its pre-filled value, or an error), the same through every read path. Non-trivial = the read involved at least one reference; distinct = distinct (world or forest + tree read, setting) / distinct data, lookup, typed or late-binding case."
}

func (check) Assumptions() []string {
	return []string{
		"model evaluator written from the statement (internal/model/varexp.go); spliced text is compared after the library's documented text->value step (parse.Value, checked on its own by C17), parse-neutral texts by plain equality",
		"not demanded: ${x:+a} for x set to the empty string; exact error text",
		"resolvers answer with parse.NoopConfig",
		"forests: an expression living in an Env configuration is looked up in that Env configuration first (the tree it lives in), then in the Env configurations of the read, then in the resolvers; the configuration being read is not consulted for it. Cycles (C08) are excluded by construction; values are words that the text->value step leaves alone",
		"a lone $ not followed by {, $ or } is not generated (the statement only pins down $$ and $})",
		"data workload: results the text->value step rejects (parse error) are not compared; the text->value step itself is C17's business and is used as the oracle for it",
		"an empty string answered by a resolver without error: the statement does not say whether the name is then set-and-empty or not found by that resolver; demanded is only that every form (lone reference, text, operators) treats it the same way; the world/forest/lookup resolvers never answer with an empty string",
		"not demanded (audit round 4): that the text of Error() of a typed getter contains the message m of ${x:?m} - m must be recoverable from the error (text or chain of reasons); the result of a text with expansions taking the documented text->value step (007 -> 7, trimmed blanks, lists) is by design; evaluation time of long chains",
		"blank results (blank.go): the text with every reference replaced, when it consists of white space only, is demanded to be read as a STRING (not null, not a skipped field, not an error). A setting that is exactly one reference to a plain string of the tree or of an Env configuration must yield that very string (the referenced value with its type). For every other form (text with expansions, lone operator, resolver answer, reference to a setting with expansions) the text passes the text->value step, which trims: both the blanks themselves (what the library does, uniformly through String / Unpack / list elements / Child; monitor blank_results_read_as_the_blanks_themselves) and the trimmed empty string are accepted, but all read paths of one setting must agree. Texts like ' , ' that the text->value step rejects are not generated; Env values and resolver answers in this workload are never empty",
		"monitored, not judged (the statement does not pin them down): (i) whose PathSep/MaxIdx/EnableNumKeys/EscapePath split a COMPUTED name (${${nm}}): the library uses the options of the read call, literal names were split at creation (monitor read_with_other_pathsep_than_creation); (ii) a name whose value is null under the operators: the library treats null as set and non-empty, rendering it as the text null (monitor null_valued_name_observed)",
	}
}

var names = []string{"a", "b", "c", "d", "s.a", "s.b", "zz"} // zz is never defined in the root
// literals: '$' and '}' (the characters the escapes $$ and $} stand for) occur
// in the middle, at the start and at the END of a literal, so that escape
// sequences end up at every position of a string, including its last two
// characters
var lits = []string{"va", "vb", "v c", "v$x", "v}y", "v:z", "w", "", "v$", "v}", "$", "}", "$v", "}v"}

func genWorld(r *rand.Rand, depth int) *model.World {
	w := &model.World{Root: map[string]*model.Setting{}}
	g := model.ExGen{Names: names, Lits: lits, NameExprs: true}
	nset := 1 + r.Intn(6)
	for j := 0; j < nset; j++ {
		n := names[r.Intn(len(names)-1)]
		switch r.Intn(10) {
		case 0:
			w.Root[n] = &model.Setting{Val: []interface{}{int64(-7), uint64(42), 2.5, true, false}[r.Intn(5)]}
		default:
			w.Root[n] = &model.Setting{Ex: g.Gen(r, depth)}
		}
	}
	if r.Intn(3) == 0 {
		// referencing strings inside list elements (and inside a dictionary
		// inside a list): they live in the same tree and resolve from its root
		for _, k := range []string{"ls.0", "ls.1", "ls.2.k"} {
			w.Root[k] = &model.Setting{Ex: g.Gen(r, depth)}
		}
	}
	if r.Intn(6) == 0 {
		// a container, referenced exactly by one setting
		var o *model.Node
		if r.Intn(2) == 0 {
			o = model.Dict().Set("k", model.P("ov")).Set("n", model.P(uint64(3)))
		} else {
			o = model.List(model.P("l0"), model.P(uint64(9)))
		}
		w.Root["o"] = &model.Setting{Val: o}
		w.Root["ro"] = &model.Setting{Ex: model.Ref("o")}
	}
	for j, c := 0, r.Intn(3); j < c; j++ {
		env := map[string]string{}
		for _, n := range names {
			if r.Intn(3) == 0 {
				env[n] = fmt.Sprintf("env%d:%s", j, n)
			}
		}
		w.Envs = append(w.Envs, env)
	}
	for j, c := 0, r.Intn(3); j < c; j++ {
		res := map[string]string{}
		for _, n := range names {
			if r.Intn(3) == 0 {
				res[n] = fmt.Sprintf("res%d:%s", j, n)
			}
		}
		w.Ress = append(w.Ress, res)
	}
	return w
}

// addDeep adds expressions nested 1..60 levels below the root (dp.n.n...n.vJ),
// each with a twin holding the same expression at the top level (twJ). The
// expressions refer to the names of the world, never to each other.
func addDeep(w *model.World, r *rand.Rand, depth int) map[string]string {
	deep := map[string]string{}
	if r.Intn(3) != 0 {
		return deep
	}
	g := model.ExGen{Names: names, Lits: lits, NameExprs: true}
	for j, c := 0, 1+r.Intn(2); j < c; j++ {
		ex := g.Gen(r, depth)
		k := "dp" + strings.Repeat(".n", 1+r.Intn(60)) + fmt.Sprintf(".v%d", j)
		tw := fmt.Sprintf("tw%d", j)
		w.Root[k] = &model.Setting{Ex: ex}
		w.Root[tw] = &model.Setting{Ex: ex}
		deep[k] = tw
	}
	return deep
}

func boolInt(b bool) int {
	if b {
		return 1
	}
	return 0
}

// sameAsTwin: a deeply nested setting reads like the same expression at the
// top level of the same tree (both are looked up from the root).
func sameAsTwin(res *harness.R, b *vx.Built, k, tw, desc string) bool {
	var s1, s2 string
	var e1, e2 error
	if p, pv, where := harness.Safe(func() {
		s1, e1 = b.C.String(k, -1, b.Opts...)
		s2, e2 = b.C.String(tw, -1, b.Opts...)
	}); p {
		res.Violate("panic", "panic %q at %s reading %q; %s", pv, where, k, desc)
		return false
	}
	res.Eval(2)
	if (e1 == nil) != (e2 == nil) || (e1 == nil && s1 != s2) {
		res.Violate("deeply-nested-setting-reads-differently-from-the-same-expression-at-top-level", "String(%q) = %q, %v but the same expression at the top level, String(%q) = %q, %v (nested %d levels); %s", k, s1, e1, tw, s2, e2, strings.Count(k, "."), desc)
		return false
	}
	return true
}

func describe(w *model.World) string {
	var ks []string
	for k := range w.Root {
		ks = append(ks, k)
	}
	sort.Strings(ks)
	var parts []string
	for _, k := range ks {
		s := w.Root[k]
		if s.Ex != nil {
			parts = append(parts, fmt.Sprintf("%s=%q", k, s.Ex.Render(false)))
		} else if n, ok := s.Val.(*model.Node); ok {
			parts = append(parts, fmt.Sprintf("%s=%s", k, n))
		} else {
			parts = append(parts, fmt.Sprintf("%s=%v(%T)", k, s.Val, s.Val))
		}
	}
	return fmt.Sprintf("root{%s} envs=%v resolvers=%v", strings.Join(parts, ", "), w.Envs, w.Ress)
}

// settingValue computes the typed value a read of the setting must yield, or
// an error. It follows the statement: exactly one reference -> the referenced
// value with its type; otherwise the substituted text after the documented
// text->value step.
func expected(w *model.World, key string) (val interface{}, res model.Res, tr *model.Trace) {
	ev := model.NewEvaluator(w)
	s := w.Root[key]
	// the setting being read counts as entered: the library may evaluate it
	// more than once per read (type probe + conversion), see Assumptions
	ev.T.Enter[key] = 1
	res = ev.EvalSetting(key, []string{}, true)
	tr = ev.T
	if res.IsErr {
		return nil, res, tr
	}
	switch {
	case res.Container:
		return res.Val.(*model.Node).ToGo(), res, tr
	case !s.Ex.HasVar():
		return res.S, res, tr // a plain string is not re-parsed
	case s.Ex.IsSingleRef():
		return chase(w, s.Ex.Name.Text, res), res, tr
	}
	return vx.ExpectText(res.S), res, tr
}

// chase follows a chain of exact single references to see what kind of value
// sits at its end.
func chase(w *model.World, name string, res model.Res) interface{} {
	for i := 0; i < 20; i++ {
		s, ok := w.Root[name]
		if !ok {
			// env values are plain strings; resolver values pass the resolver's
			// parse config (Noop: primitives only) - the layer-tagged values are
			// parse-neutral under it
			return res.S
		}
		if s.Ex == nil {
			if n, ok := s.Val.(*model.Node); ok {
				return n.ToGo()
			}
			return s.Val
		}
		if !s.Ex.HasVar() {
			return res.S
		}
		if !s.Ex.IsSingleRef() {
			return vx.ExpectText(res.S)
		}
		name = s.Ex.Name.Text
	}
	return res.S
}

func classOf(res model.Res) string {
	switch {
	case res.Cyclic:
		return "cyclic"
	case res.IsErr && res.Msg == "missing", res.IsErr && res.Msg == "unresolved":
		return "unresolvable"
	case res.IsErr && res.Msg == "type":
		return "type-error"
	case res.IsErr:
		return "error-operator"
	}
	return "value"
}

func (check) Run(seed int64, tier string, idx int, verbose bool) harness.Result {
	res := harness.NewR(idx)
	runWorld(res, rand.New(rand.NewSource(harness.Mix(seed, "C02", idx))), tier, idx, verbose)
	// second workload: expressions copied into several trees (forest.go)
	runForest(res, rand.New(rand.NewSource(harness.Mix(seed, "C02-forest", idx))), tier, idx, verbose, false)
	runForest(res, rand.New(rand.NewSource(harness.Mix(seed, "C02-relay", idx))), tier, idx, verbose, true)
	// third workload: expansion results are data (data.go)
	runData(res, rand.New(rand.NewSource(harness.Mix(seed, "C02-data", idx))), idx, verbose)
	// fourth workload: non-objects on the path of a name in an earlier layer (pathblock.go)
	runPathBlock(res, rand.New(rand.NewSource(harness.Mix(seed, "C02-lookup", idx))), idx, verbose)
	// fifth workload: a single reference reads like the referenced value, for every target type (typed.go)
	runTyped(res, rand.New(rand.NewSource(harness.Mix(seed, "C02-typed", idx))), idx, verbose)
	// sixth workload: a reference merged onto an existing value stays late-bound (latebind.go)
	runLateBind(res, rand.New(rand.NewSource(harness.Mix(seed, "C02-latebind", idx))), idx, verbose)
	// seventh workload: several settings read in one call, in random orders (order.go)
	runOrder(res, rand.New(rand.NewSource(harness.Mix(seed, "C02-order", idx))), idx, verbose)
	// eighth workload: expansion results made of white space only (blank.go)
	runBlank(res, rand.New(rand.NewSource(harness.Mix(seed, "C02-blank", idx))), idx, verbose)
	return res.Done()
}

func runWorld(res *harness.R, r *rand.Rand, tier string, idx int, verbose bool) {
	depth := 2 + r.Intn(2)
	if tier == "thorough" {
		depth = 2 + r.Intn(4)
	}
	w := genWorld(r, depth)
	deep := addDeep(w, r, depth)
	desc := describe(w)
	var br *rand.Rand
	if r.Intn(2) == 0 {
		br = r
	}
	var b *vx.Built
	var err error
	if p, pv, where := harness.Safe(func() { b, err = vx.Build(w, br) }); p {
		res.Violate("panic", "panic %q at %s building %s", pv, where, desc)
		return
	}
	res.Eval(1)
	if err != nil {
		res.Violate("build-error", "building the config failed: %v; %s", err, desc)
		return
	}
	// the resolvers: one that does not know a name says so with ErrMissing or
	// fails with an error of its own; either way the name is not found THERE and
	// the resolvers added earlier are asked
	var rlog []vx.ResCall
	b.Opts = append([]ucfg.Option{}, b.Opts[:len(vx.BaseOpts)+len(w.Envs)]...)
	var missModes []string
	for i, m := range w.Ress {
		i, m := i, m
		ownErr := r.Intn(2) == 0
		if ownErr {
			res.Ev("resolvers_failing_with_an_error_of_their_own_for_unknown_names", 1)
			missModes = append(missModes, fmt.Sprintf("res%d:own-error", i))
		} else {
			missModes = append(missModes, fmt.Sprintf("res%d:ErrMissing", i))
		}
		b.Opts = append(b.Opts, ucfg.Resolve(func(n string) (string, parse.Config, error) {
			v, ok := m[n]
			rlog = append(rlog, vx.ResCall{Idx: i, Name: n, Hit: ok})
			switch {
			case ok:
				return v, parse.NoopConfig, nil
			case ownErr:
				return "", parse.NoopConfig, fmt.Errorf("resolver %d has no variable %q", i, n)
			}
			return "", parse.NoopConfig, ucfg.ErrMissing
		}))
	}
	desc += fmt.Sprintf(" unknown names answered with %v", missModes)
	// the same settings once more in another spelling of their escapes (merged
	// later: the later text is the one that counts)
	if r.Intn(2) == 0 {
		again := map[string]interface{}{}
		var ks []string
		for k, s := range w.Root {
			if s.Ex != nil && !strings.HasPrefix(k, "ls.") {
				ks = append(ks, k)
			}
		}
		sort.Strings(ks)
		for _, k := range ks {
			if alt := renderAlt(w.Root[k].Ex, r); alt != w.Root[k].Ex.Render(false) {
				again[k] = alt
			}
		}
		if len(again) > 0 {
			if p, pv, where := harness.Safe(func() { err = b.C.Merge(again, vx.BaseOpts...) }); p {
				res.Violate("panic", "panic %q at %s merging %v into %s", pv, where, again, desc)
				return
			}
			res.Eval(1)
			if err != nil {
				res.Violate("build-error", "merging %v failed: %v; %s", again, err, desc)
				return
			}
			b.Merges = append(b.Merges, fmt.Sprintf("merge respelled %v", again))
			res.Ev("settings_respelled_with_$}_outside_braces", int64(len(again)))
		}
	}
	desc += " built by " + strings.Join(b.Merges, ", ")
	if idx < 2 {
		res.Sample = desc
	}
	res.SetAdd("layers", fmt.Sprintf("env%d-res%d", len(w.Envs), len(w.Ress)))
	if br != nil {
		res.Ev("built_by_several_merges", 1)
	}

	// sixth wave: top-level settings are read once more by a call that brings
	// another PathSep or none (worlds without computed names only)
	alt := drawAltRead(w, b, rand.New(rand.NewSource(int64(r.Intn(1<<30)))))
	if alt != nil {
		res.Ev("worlds_read_again_by_a_call_with_another_pathsep_or_none", 1)
	}

	keys := make([]string, 0, len(w.Root))
	for k := range w.Root {
		keys = append(keys, k)
	}
	sort.Strings(keys)
	for _, k := range keys {
		s := w.Root[k]
		if s.Ex == nil {
			continue
		}
		want, mres, tr := expected(w, k)
		if tr.Budget {
			continue
		}
		cls := classOf(mres)
		res.SetAdd("expected_class", cls)
		for _, l := range tr.Layers {
			res.SetAdd("layer_hit", l)
		}
		if s.Ex.HasVar() {
			res.Key(desc + "|" + k)
		}
		if endsInEscape(s.Ex.Render(false)) {
			res.Ev("settings_ending_in_an_escape_sequence", 1)
		}
		if tw, ok := deep[k]; ok {
			res.Ev("settings_nested_more_than_32_levels_read", int64(boolInt(strings.Count(k, ".") > 32)))
			res.SetAdd("nesting_depth_of_expression", fmt.Sprintf("%d", strings.Count(k, ".")/10*10))
			if !sameAsTwin(res, b, k, tw, desc) {
				continue
			}
		}
		rlog = nil
		compare(res, w, b, k, s, want, mres, cls, desc, verbose, alt)
		checkResolverOrder(res, rlog, len(w.Ress), k, desc)
	}
}

// sigFor narrows a deviation to the failing mechanism.
func sigFor(w *model.World, s *model.Setting, cls string, got string) string {
	switch {
	case cls == "unresolvable" && len(w.Ress) == 0 && got == "silent-empty":
		return "unresolvable-reference-reads-as-empty-without-resolvers"
	case cls == "unresolvable":
		return "unresolvable-reference-not-an-error"
	case cls == "cyclic" && len(w.Ress) == 0 && got == "silent-empty":
		return "cyclic-reference-reads-as-empty-without-resolvers"
	case cls == "cyclic":
		return "cyclic-reference-not-an-error"
	case cls == "error-operator":
		return "error-operator-did-not-fail"
	case cls == "type-error":
		return "container-in-string-context-accepted"
	}
	return "substitution-mismatch"
}

// valueSig: a wrong value; escape sequences left in the text get their own
// signature.
func valueSig(w *model.World, s *model.Setting, cls string, got, want string) string {
	if cls == "value" {
		if sig := escapeSig(got, want); sig != "" {
			return sig
		}
	}
	return sigFor(w, s, cls, "")
}

// altRead: options of a reading call that brings another PathSep than the one
// the tree was created with, or none (sixth wave).
type altRead struct {
	n    string
	opts []ucfg.Option
}

// computedName: some reference of the expression has a name that is computed
// at read time (whose options split such a name is not pinned down).
func computedName(e *model.Ex) bool {
	if e == nil {
		return false
	}
	if e.Kind != model.XLit && e.Kind != model.XCat && e.Name != nil && e.Name.Kind != model.XLit {
		return true
	}
	if computedName(e.Name) || computedName(e.Rhs) {
		return true
	}
	for _, k := range e.Kids {
		if computedName(k) {
			return true
		}
	}
	return false
}

func drawAltRead(w *model.World, b *vx.Built, r *rand.Rand) *altRead {
	for _, s := range w.Root {
		if computedName(s.Ex) {
			return nil
		}
	}
	a := []altRead{
		{"no PathSep", []ucfg.Option{ucfg.VarExp}},
		{"PathSep(/)", []ucfg.Option{ucfg.PathSep("/"), ucfg.VarExp}},
		{"no option but the layers", nil},
	}[r.Intn(3)]
	a.opts = append(append([]ucfg.Option{}, a.opts...), b.Opts[len(vx.BaseOpts):]...)
	return &a
}

func compare(res *harness.R, w *model.World, b *vx.Built, k string, s *model.Setting, want interface{}, mres model.Res, cls string, desc string, verbose bool, alt *altRead) {
	type reading struct {
		how string
		val interface{}
		err error
	}
	var reads []reading
	p, pv, where := harness.Safe(func() {
		// String getter
		if !mres.Container {
			str, err := b.C.String(k, -1, b.Opts...)
			reads = append(reads, reading{"String()", str, err})
		}
		v, err := vx.ReadField(b.C, k, nil, b.Opts)
		reads = append(reads, reading{"Unpack(interface{})", v, err})
		if !mres.Container {
			v, err = vx.ReadField(b.C, k, reflect.TypeOf(""), b.Opts)
			reads = append(reads, reading{"Unpack(string)", v, err})
		}
		if strings.HasPrefix(k, "ls.") && !mres.Container {
			// through a handle of the list, and the whole list unpacked
			if ch, cerr := b.C.Child("ls", -1, b.Opts...); cerr == nil {
				rest := strings.TrimPrefix(k, "ls.")
				str, err := ch.String(rest, -1, b.Opts...)
				reads = append(reads, reading{"Child(ls).String()", str, err})
			}
		}
		if strings.HasPrefix(k, "dp.") && !mres.Container {
			// through a handle half way down
			parts := strings.Split(k, ".")
			h := len(parts) / 2
			if ch, cerr := b.C.Child(strings.Join(parts[:h], "."), -1, b.Opts...); cerr == nil {
				str, err := ch.String(strings.Join(parts[h:], "."), -1, b.Opts...)
				reads = append(reads, reading{"Child(half way down).String()", str, err})
			}
		}
		if alt != nil && !strings.Contains(k, ".") && !mres.Container {
			str, err := b.C.String(k, -1, alt.opts...)
			reads = append(reads, reading{"String() by a call with " + alt.n, str, err})
			v, err := vx.ReadField(b.C, k, nil, alt.opts)
			reads = append(reads, reading{"by a call with " + alt.n + ": Unpack(interface{})", v, err})
		}
		if strings.HasPrefix(k, "s.") && !mres.Container {
			rest := strings.TrimPrefix(k, "s.")
			ch, cerr := b.C.Child("s", -1, b.Opts...)
			if cerr == nil {
				str, err := ch.String(rest, -1, b.Opts...)
				reads = append(reads, reading{"Child(s).String()", str, err})
			}
			// child configurations handed out by Unpack: a *Config field is a
			// view of the setting; a second Unpack (of an overlay bringing one
			// more plain setting) into the same struct merges into a private
			// copy of the view, a third one into that copy. The handle still
			// is a part of the tree it was taken from.
			var target struct {
				S *ucfg.Config `config:"s"`
			}
			if uerr := b.C.Unpack(&target, b.Opts...); uerr == nil && target.S != nil {
				str, err := target.S.String(rest, -1, b.Opts...)
				reads = append(reads, reading{"*Config field.String()", str, err})
				for i, how := range []string{"*Config field after a second Unpack", "*Config field after a third Unpack"} {
					overlay, oerr := ucfg.NewFrom(map[string]interface{}{"s": map[string]interface{}{fmt.Sprintf("extra%d", i): "x"}}, vx.BaseOpts...)
					if oerr != nil || overlay.Unpack(&target, vx.BaseOpts...) != nil || target.S == nil {
						break
					}
					if x, xerr := target.S.String(fmt.Sprintf("extra%d", i), -1); xerr != nil || x != "x" {
						reads = append(reads, reading{how + ": the setting brought by the overlay", x, xerr})
						break
					}
					str, err := target.S.String(rest, -1, b.Opts...)
					reads = append(reads, reading{how + ".String()", str, err})
					v, err := vx.ReadField(target.S, rest, nil, b.Opts)
					reads = append(reads, reading{how + ".Unpack(interface{})", v, err})
				}
			}
		}
	})
	if p {
		res.Violate("panic", "panic %q at %s reading %q; %s", pv, where, k, desc)
		return
	}
	res.Eval(len(reads))
	wantStr := ""
	if !mres.IsErr && !mres.Container {
		wantStr = mres.S
	}
	for _, rd := range reads {
		res.SetAdd("read_path", rd.how)
		// the handles handed out by Unpack are read after the tree itself and
		// its Child handle agreed with the model: a deviation is theirs
		sg := func(sig string) string {
			switch {
			case strings.HasPrefix(rd.how, "*Config field after"):
				return "config-field-handle-merged-by-a-later-unpack-not-read-as-part-of-its-tree"
			case strings.HasPrefix(rd.how, "*Config field"):
				return "config-field-handle-not-read-as-part-of-its-tree"
			case strings.Contains(rd.how, "by a call with "):
				// the same read with the options of creation agreed with the model
				return "name-of-a-reference-split-at-the-separator-of-the-reading-call:world"
			}
			return sig
		}
		if strings.HasSuffix(rd.how, "overlay") {
			res.Violate("config-field-handle-lost-the-setting-of-the-overlay", "%s: %#v, %v; %s", rd.how, rd.val, rd.err, desc)
			return
		}
		if strings.HasPrefix(rd.how, "*Config field after") {
			res.Ev("reads_through_a_config_field_merged_by_a_later_unpack", 1)
		}
		if strings.Contains(rd.how, "by a call with ") {
			res.Ev("world_reads_by_a_call_with_another_pathsep_or_none", 1)
			if strings.Contains(s.Ex.Render(false), ".") {
				res.Ev("world_reads_by_a_call_with_another_pathsep_or_none_of_a_text_naming_a_nested_setting", 1)
			}
		}
		if verbose {
			fmt.Printf("%s %s -> %#v err=%v (model: %s %#v)\n", k, rd.how, rd.val, rd.err, cls, want)
		}
		if mres.IsErr {
			if rd.err == nil {
				got := "value"
				if fmt.Sprint(rd.val) == "" || rd.val == nil {
					got = "silent-empty"
				}
				res.Violate(sg(sigFor(w, s, cls, got)), "%s of %q returned %#v without error, model says %s (%s); %s", rd.how, k, rd.val, cls, mres.Msg, desc)
				return
			}
			if cls == "cyclic" && !vx.IsCyclicErr(rd.err) {
				res.Violate(sg("cyclic-error-not-identifiable"), "%s of %q failed with %v, expected a cyclic reference error; %s", rd.how, k, rd.err, desc)
				return
			}
			if cls == "error-operator" && !vx.MentionsMsg(rd.err, mres.Msg) {
				res.Violate(sg("error-operator-message-lost"), "%s of %q failed with %v, expected the message %q; %s", rd.how, k, rd.err, mres.Msg, desc)
				return
			}
			continue
		}
		if rd.err != nil {
			sig := "resolvable-reference-fails"
			if repeated(s.Ex) {
				sig = "resolvable-reference-fails"
			}
			res.Violate(sg(sig), "%s of %q failed with %v, model says %#v; %s", rd.how, k, rd.err, want, desc)
			return
		}
		switch {
		case strings.HasSuffix(rd.how, "Unpack(interface{})"):
			if model.CanonIfc(rd.val) != model.CanonIfc(want) {
				res.Violate(sg(valueSig(w, s, cls, fmt.Sprint(rd.val), wantStr)), "%s of %q = %s, model %s (text %q); %s", rd.how, k, model.CanonIfc(rd.val), model.CanonIfc(want), wantStr, desc)
				return
			}
			if s.Ex.IsSingleRef() && typeClass(rd.val) != typeClass(want) {
				res.Violate(sg("single-reference-loses-type"), "%s of %q has type %T, the referenced value is %T; %s", rd.how, k, rd.val, want, desc)
				return
			}
		default:
			got := rd.val.(string)
			if vx.ParseNeutral(wantStr) || !s.Ex.HasVar() {
				if got != wantStr {
					res.Violate(sg(valueSig(w, s, cls, got, wantStr)), "%s of %q = %q, model %q; %s", rd.how, k, got, wantStr, desc)
					return
				}
				res.Ev("compared_parse_neutral", 1)
			} else if got != wantStr && got != model.PlainString(canonPrim(want)) && model.CanonIfc(vx.ExpectText(got)) != model.CanonIfc(want) {
				res.Violate(sg(valueSig(w, s, cls, got, wantStr)), "%s of %q = %q, model text %q (value %s); %s", rd.how, k, got, wantStr, model.CanonIfc(want), desc)
				return
			}
		}
	}
}

func canonPrim(v interface{}) interface{} {
	switch v.(type) {
	case string, bool, int64, uint64, float64:
		return v
	}
	return "<container>"
}

func typeClass(v interface{}) string {
	switch v.(type) {
	case nil:
		return "nil"
	case bool:
		return "bool"
	case string:
		return "string"
	case int64, uint64, float64, int:
		return "number"
	case map[string]interface{}:
		return "object"
	case []interface{}:
		return "list"
	}
	return fmt.Sprintf("%T", v)
}

func repeated(e *model.Ex) bool { return false }

// checkResolverOrder: for consecutive resolver calls with the same name the
// indices must descend from the most recently added resolver, stopping at the
// first that knows the name.
func checkResolverOrder(res *harness.R, log []vx.ResCall, n int, k, desc string) {
	res.Ev("resolver_calls_observed", int64(len(log)))
	for i := 0; i < len(log); {
		j := i
		want := n - 1
		for j < len(log) && log[j].Name == log[i].Name {
			if log[j].Idx != want {
				// a new lookup of the same name starts again at the top
				if log[j].Idx == n-1 && (j == i || log[j-1].Hit || log[j-1].Idx == 0) {
					want = n - 1
				} else {
					res.Violate("resolver-order", "reading %q consulted resolver %d where %d was due (calls %v); %s", k, log[j].Idx, want, log, desc)
					return
				}
			}
			if log[j].Hit || want == 0 {
				want = n - 1
			} else {
				want--
			}
			j++
		}
		i = j
	}
}

var _ = ucfg.New
