package c02

// Second workload of C02: a FOREST of configuration trees. The statement says
// a reference is looked up "in the configuration tree the setting lives in
// (from its root), then in the Env configurations (most recently added
// first), then from the resolvers". The world workload (c02.go) only has Env
// configurations holding plain strings that were built from Go data. Here the
// root and the Env configurations all hold expressions, they are assembled
// from Go data AND by copying other configurations (Merge of a *Config: a
// common source configuration, or a tree built earlier) in random order with
// later definitions overwriting earlier ones, so that one and the same
// expression lives in several trees in which the names it refers to have
// different values; the settings of the root are read with the other trees as
// Env. Every expression must be expanded against the tree it lives in.
//
// Cycles are C08's business and are excluded by construction: every name has
// a level and an expression only refers to names of lower levels.

import (
	"fmt"
	"math/rand"
	"reflect"
	"sort"
	"strings"

	ucfg "github.com/elastic/go-ucfg"
	"github.com/elastic/go-ucfg/parse"

	"verif/internal/harness"
	"verif/internal/model"
	"verif/internal/vx"
)

// The names are totally ordered; the first two hold plain values naming the
// tree / layer they come from, every other name holds an expression over the
// names before it.
var fNames = []string{"n0", "n1", "g0", "s.g1", "h0", "h1", "k0", "s.k1"}

const fPlain = 2

// literals: words, an inner blank, and '$' / '}' at the start, in the middle
// and at the END of the text (escape sequences at every position of a string)
var fLits = []string{"va", "vb-", "v c", "w", "", "x$", "y}", "$", "}", "$q", "}q", "p$p", "p}p"}

// fdef is one definition of a name. origin identifies the definition as an
// object: copies made by merging a configuration into another keep it.
type fdef struct {
	ex     *model.Ex
	text   string // the spelling handed to the library
	origin int
}

type ftree struct {
	label    string
	ownOrder bool
	set      map[string]*fdef
	steps    []string
}

type forest struct {
	srcs  []*ftree // source configurations, only ever copied from
	trees []*ftree // every tree is read in turn, with the other ones as Env configurations (in this order)
	ress  []map[string]string
	ownE  []bool    // the resolver answers unknown names with an error of its own, not ErrMissing
	plan  [][]fstep // per tree
	nextO int

	pool    map[int]bool // relay forests: the only names in use (indexes of fNames)
	depth   int          // nesting depth of the expressions: 1..depth
	reading int          // the tree being read
	envs    []int        // its Env configurations in the order added
}

type fstep struct {
	kind string // "own", "src", "tree"
	from int
	own  map[string]*fdef
}

func tagName(tag, name string) string {
	return tag + strings.ToUpper(strings.ReplaceAll(name, ".", ""))
}

// fLower: the names an expression defined under fNames[i] may refer to; names
// holding expressions are drawn three times as often as the plain ones.
func fLower(i int) []string {
	out := append([]string{}, fNames[:i]...)
	for j := fPlain; j < i; j++ {
		out = append(out, fNames[j], fNames[j])
	}
	return out
}

// fLowerIn: like fLower, for a tree that ranks the names holding expressions
// in an order of its own (rank[name index] = position): the same two names
// may then refer to each other in opposite directions in two trees, which is
// not a cycle - a name denotes the setting of the tree the referring
// expression lives in.
func fLowerIn(rank []int, i int, pool map[int]bool) []string {
	if rank == nil {
		return fLower(i)
	}
	var out []string
	for j := 0; j < fPlain; j++ {
		if pool == nil || pool[j] {
			out = append(out, fNames[j])
		}
	}
	for j := fPlain; j < len(fNames); j++ {
		if rank[j] < rank[i] && (pool == nil || pool[j]) {
			out = append(out, fNames[j], fNames[j], fNames[j])
		}
	}
	return out
}

func (f *forest) newDef(r *rand.Rand, i int, tag string, wide bool, rank []int) *fdef {
	var ex *model.Ex
	if i < fPlain {
		ex = model.Lit(tagName(tag, fNames[i]))
	} else if wide {
		// a text with several expansions: several names are resolved within
		// one read
		g := model.ExGen{Names: fLowerIn(rank, i, f.pool), Lits: fLits, NameExprs: true}
		c := &model.Ex{Kind: model.XCat}
		for j, n := 0, 2+r.Intn(3); j < n; j++ {
			c.Kids = append(c.Kids, g.Gen(r, 1))
		}
		ex = c.Normalize()
	} else {
		g := model.ExGen{Names: fLowerIn(rank, i, f.pool), Lits: fLits, NameExprs: true}
		ex = g.Gen(r, 1+r.Intn(f.depth))
		if !ex.HasVar() && r.Intn(2) == 0 {
			ex = g.Gen(r, f.depth)
		}
	}
	f.nextO++
	return &fdef{ex: ex, text: renderAlt(ex, r), origin: f.nextO}
}

// genRelay: a forest of 3-4 trees over FEW names (one plain value, four
// expressions), every tree ranking the names in an order of its own and
// holding about half of them, no copies: a read is relayed from tree to tree
// (a name missing in one Env configuration is found in the next one) and the
// same name is resolved in several Env configurations within one read.
func genRelay(r *rand.Rand, depth int) *forest {
	idx := []int{0, 2, 3, 4, 6}
	f := &forest{depth: depth, pool: map[int]bool{}}
	for _, i := range idx {
		f.pool[i] = true
	}
	for t, n := 0, 3+r.Intn(2); t < n; t++ {
		label := fmt.Sprintf("t%d", t)
		tr := &ftree{label: label, set: map[string]*fdef{}, ownOrder: true}
		rank := make([]int, len(fNames))
		for j, p := range r.Perm(len(fNames) - fPlain) {
			rank[fPlain+j] = p
		}
		own := map[string]*fdef{}
		for _, i := range idx {
			if r.Intn(2) == 0 {
				own[fNames[i]] = f.newDef(r, i, label, r.Intn(4) == 0, rank)
			}
		}
		if len(own) == 0 {
			i := idx[1+r.Intn(len(idx)-1)]
			own[fNames[i]] = f.newDef(r, i, label, false, rank)
		}
		tr.steps = append(tr.steps, "merge "+describeDefs(own))
		for n, d := range own {
			tr.set[n] = d
		}
		f.trees = append(f.trees, tr)
		f.plan = append(f.plan, []fstep{{kind: "own", own: own}})
	}
	if r.Intn(3) == 0 {
		f.ress = append(f.ress, map[string]string{fNames[idx[r.Intn(len(idx))]]: "res0X"})
		f.ownE = append(f.ownE, r.Intn(2) == 0)
	}
	return f
}

func genForest(r *rand.Rand, depth int) *forest {
	f := &forest{depth: depth}
	// several small source configurations: the trees copy different subsets of
	// them, so they share definitions without holding the same set of names
	for k, c := 0, 3+r.Intn(4); k < c; k++ {
		label := fmt.Sprintf("src%d", k)
		set := map[string]*fdef{}
		for j, c := 0, 1+r.Intn(2); j < c; j++ {
			i := fPlain + r.Intn(len(fNames)-fPlain)
			set[fNames[i]] = f.newDef(r, i, label, false, nil)
		}
		for i := 0; i < fPlain; i++ {
			if r.Intn(4) == 0 {
				set[fNames[i]] = f.newDef(r, i, label, false, nil)
			}
		}
		f.srcs = append(f.srcs, &ftree{label: label, set: set})
	}
	ntrees := []int{1, 2, 3, 3, 4, 4}[r.Intn(6)]
	for t := 0; t < ntrees; t++ {
		label := fmt.Sprintf("t%d", t)
		tr := &ftree{label: label, set: map[string]*fdef{}}
		// every second tree ranks the names in an order of its own
		var rank []int
		if r.Intn(2) == 0 {
			rank = make([]int, len(fNames))
			for j, p := range r.Perm(len(fNames) - fPlain) {
				rank[fPlain+j] = p
			}
			tr.ownOrder = true
		}
		var plan []fstep
		// one tree in three is thin (few settings of its own): most names it
		// uses come from the Env configurations
		nsteps := 1 + r.Intn(5)
		if r.Intn(3) == 0 {
			nsteps = r.Intn(2)
		}
		for j := 0; j < nsteps; j++ {
			var st fstep
			switch k := r.Intn(20); {
			case k < 3:
				own := map[string]*fdef{}
				for i, n := range fNames {
					if r.Intn(4) == 0 {
						own[n] = f.newDef(r, i, label, false, rank)
					}
				}
				st = fstep{kind: "own", own: own}
			case k < 17 || t == 0:
				st = fstep{kind: "src", from: r.Intn(len(f.srcs))}
			default:
				st = fstep{kind: "tree", from: r.Intn(t)}
			}
			plan = append(plan, st)
		}
		// settings of its own over all the other names, at a random position
		// among the steps (defined before or after what they refer to)
		own := map[string]*fdef{}
		for j, c := 0, 1+r.Intn(2); j < c; j++ {
			i := len(fNames) - 1 - r.Intn(4)
			own[fNames[i]] = f.newDef(r, i, label, r.Intn(3) > 0, rank)
		}
		at := r.Intn(len(plan) + 1)
		plan = append(plan[:at], append([]fstep{{kind: "own", own: own}}, plan[at:]...)...)
		// the model of "merge": per name, the later step wins
		for _, st := range plan {
			var from map[string]*fdef
			switch st.kind {
			case "own":
				from = st.own
				tr.steps = append(tr.steps, "merge "+describeDefs(st.own))
			case "src":
				from = f.srcs[st.from].set
				tr.steps = append(tr.steps, "merge config "+f.srcs[st.from].label)
			default:
				from = f.trees[st.from].set
				tr.steps = append(tr.steps, "merge config "+f.trees[st.from].label)
			}
			for n, d := range from {
				tr.set[n] = d
			}
		}
		f.trees = append(f.trees, tr)
		f.plan = append(f.plan, plan)
	}
	for i, c := 0, r.Intn(3); i < c; i++ {
		res := map[string]string{}
		for _, n := range fNames[:4] {
			if r.Intn(4) == 0 {
				res[n] = tagName(fmt.Sprintf("res%d", i), n)
			}
		}
		f.ress = append(f.ress, res)
		f.ownE = append(f.ownE, r.Intn(2) == 0)
	}
	return f
}

func describeDefs(m map[string]*fdef) string {
	ks := make([]string, 0, len(m))
	for k := range m {
		ks = append(ks, k)
	}
	sort.Strings(ks)
	var parts []string
	for _, k := range ks {
		parts = append(parts, fmt.Sprintf("%s=%q", k, m[k].text))
	}
	return "{" + strings.Join(parts, ", ") + "}"
}

func (f *forest) describe() string {
	var b strings.Builder
	for _, s := range f.srcs {
		fmt.Fprintf(&b, "%s=%s; ", s.label, describeDefs(s.set))
	}
	for _, t := range f.trees {
		fmt.Fprintf(&b, "%s built by [%s]; ", t.label, strings.Join(t.steps, ", "))
		_ = t.ownOrder
	}
	fmt.Fprintf(&b, "resolvers=%v (unknown names answered with an error of their own: %v)", f.ress, f.ownE)
	return b.String()
}

// --- realisation with the library ---

type fbuilt struct {
	trees []*ucfg.Config
	res   []ucfg.Option
	root  *ucfg.Config  // the tree being read
	opts  []ucfg.Option // PathSep, VarExp, Env(other trees)..., Resolve...
}

func flatMap(m map[string]*fdef) map[string]interface{} {
	out := map[string]interface{}{}
	for k, d := range m {
		out[k] = d.text
	}
	return out
}

func (f *forest) build() (*fbuilt, error) {
	base := vx.BaseOpts
	var srcs, trees []*ucfg.Config
	for _, s := range f.srcs {
		c, err := ucfg.NewFrom(flatMap(s.set), base...)
		if err != nil {
			return nil, err
		}
		srcs = append(srcs, c)
	}
	for t := range f.trees {
		c := ucfg.New()
		for _, st := range f.plan[t] {
			var err error
			switch st.kind {
			case "own":
				err = c.Merge(flatMap(st.own), base...)
			case "src":
				err = c.Merge(srcs[st.from], base...)
			default:
				err = c.Merge(trees[st.from], base...)
			}
			if err != nil {
				return nil, err
			}
		}
		trees = append(trees, c)
	}
	b := &fbuilt{trees: trees}
	for i, res := range f.ress {
		i, res := i, res
		b.res = append(b.res, ucfg.Resolve(func(n string) (string, parse.Config, error) {
			if v, ok := res[n]; ok {
				return v, parse.NoopConfig, nil
			}
			if f.ownE[i] {
				return "", parse.NoopConfig, fmt.Errorf("resolver %d has no variable %q", i, n)
			}
			return "", parse.NoopConfig, ucfg.ErrMissing
		}))
	}
	return b, nil
}

// read selects the tree to be read; all other trees are its Env
// configurations, added in the order of their numbers.
func (f *forest) read(b *fbuilt, t int) {
	f.reading, f.envs = t, nil
	b.root = b.trees[t]
	b.opts = append([]ucfg.Option{}, vx.BaseOpts...)
	for j := range f.trees {
		if j != t {
			f.envs = append(f.envs, j)
			b.opts = append(b.opts, ucfg.Env(b.trees[j]))
		}
	}
	b.opts = append(b.opts, b.res...)
}

// --- the model: the statement, for acyclic forests ---

type fres struct {
	s     string
	isErr bool
	msg   string // "missing", or the message of ${x:?m}
}

type ftrace struct {
	steps    int
	stack    []fframe // settings being evaluated
	cyclic   bool     // a setting was entered again while being evaluated: C08's business, not compared
	sameName bool     // a name was being evaluated in two different trees at the same time (no cycle)
	twoEnvs  bool     // ... and both trees are Env configurations of the read
	reading  int
	// trees in which each definition (by origin) holding a ${} was evaluated
	where     map[int]map[int]bool
	envExpr   bool // an expression living in an Env configuration was evaluated
	fromEnv   bool
	fromRes   bool
	fromOther bool // a name found in another tree than the one the expression lives in
}

type fframe struct {
	tree int
	name string
}

// enter pushes the setting name of tree t; false if it is being evaluated already.
func (tr *ftrace) enter(t int, name string) bool {
	for _, fr := range tr.stack {
		if fr.name == name {
			if fr.tree == t {
				tr.cyclic = true
				return false
			}
			tr.sameName = true
			if fr.tree != tr.reading && t != tr.reading {
				tr.twoEnvs = true
			}
		}
	}
	tr.stack = append(tr.stack, fframe{t, name})
	return true
}

func (tr *ftrace) leave() { tr.stack = tr.stack[:len(tr.stack)-1] }

func (tr *ftrace) multiTree() bool {
	for _, ts := range tr.where {
		if len(ts) > 1 {
			return true
		}
	}
	return false
}

// find: the tree the expression lives in, then the Env configurations most
// recently added first.
func (f *forest) find(t int, name string) (int, *fdef) {
	if d, ok := f.trees[t].set[name]; ok {
		return t, d
	}
	for i := len(f.envs) - 1; i >= 0; i-- {
		if d, ok := f.trees[f.envs[i]].set[name]; ok {
			return f.envs[i], d
		}
	}
	return -1, nil
}

func (f *forest) fromResolvers(name string) (string, bool) {
	for i := len(f.ress) - 1; i >= 0; i-- {
		if v, ok := f.ress[i][name]; ok {
			return v, true
		}
	}
	return "", false
}

func (f *forest) ref(t int, name string, tr *ftrace) fres {
	if tr.steps++; tr.steps > 20000 {
		tr.cyclic = true // too entangled to be judged here
		return fres{isErr: true, msg: "budget"}
	}
	if j, d := f.find(t, name); d != nil {
		if j != t {
			tr.fromOther = true
		}
		if j != f.reading {
			tr.fromEnv = true
		}
		if !tr.enter(j, name) {
			return fres{isErr: true, msg: "cyclic"}
		}
		defer tr.leave()
		return f.evalDef(j, d, tr)
	}
	// no tree holds the name: it denotes no setting, but it is a name being
	// resolved all the same
	for _, fr := range tr.stack {
		if fr.name == name {
			tr.sameName = true
		}
	}
	if v, ok := f.fromResolvers(name); ok {
		tr.fromRes = true
		return fres{s: v}
	}
	return fres{isErr: true, msg: "missing"}
}

func (f *forest) exists(t int, name string, tr *ftrace) bool {
	if j, d := f.find(t, name); d != nil {
		// only asked for, not evaluated - but asking for a setting that is
		// being evaluated is a re-entry all the same
		if tr.enter(j, name) {
			tr.leave()
		}
		return true
	}
	_, ok := f.fromResolvers(name)
	return ok
}

func (f *forest) evalDef(t int, d *fdef, tr *ftrace) fres {
	if !d.ex.HasVar() {
		return f.eval(t, d.ex, tr) // a plain string is not re-parsed
	}
	if tr.where[d.origin] == nil {
		tr.where[d.origin] = map[int]bool{}
	}
	tr.where[d.origin][t] = true
	if t != f.reading {
		tr.envExpr = true
	}
	if d.ex.IsSingleRef() {
		return f.ref(t, d.ex.Name.Text, tr)
	}
	r := f.eval(t, d.ex, tr)
	if !r.isErr {
		// the documented text->value step; on the texts generated here it can
		// only strip surrounding white space (and none is generated there)
		if s := strings.TrimSpace(r.s); s != "" {
			r.s = s
		}
	}
	return r
}

func (f *forest) eval(t int, e *model.Ex, tr *ftrace) fres {
	switch e.Kind {
	case model.XLit:
		return fres{s: e.Text}
	case model.XCat:
		var b strings.Builder
		for _, k := range e.Kids {
			r := f.eval(t, k, tr)
			if r.isErr {
				return r
			}
			b.WriteString(r.s)
		}
		return fres{s: b.String()}
	}
	n := f.eval(t, e.Name, tr)
	named := !n.isErr && n.s != ""
	switch e.Kind {
	case model.XRef:
		if n.isErr {
			return n
		}
		return f.ref(t, n.s, tr)
	case model.XDef:
		if named {
			if v := f.ref(t, n.s, tr); !v.isErr && v.s != "" {
				return v
			}
		}
		return f.eval(t, e.Rhs, tr)
	case model.XAlt:
		if !named || !f.exists(t, n.s, tr) {
			return fres{}
		}
		return f.eval(t, e.Rhs, tr)
	default: // XErr
		if named {
			if v := f.ref(t, n.s, tr); !v.isErr && v.s != "" {
				return v
			}
		}
		m := f.eval(t, e.Rhs, tr)
		if m.isErr {
			return m
		}
		return fres{isErr: true, msg: m.s}
	}
}

// --- run + compare ---

func runForest(res *harness.R, r *rand.Rand, tier string, idx int, verbose bool, relay bool) {
	depth := 2
	if tier == "thorough" {
		depth = 3
	}
	var f *forest
	if relay {
		f = genRelay(r, 1+r.Intn(depth))
		res.Ev("relay_forest_cases", 1)
	} else {
		f = genForest(r, depth)
	}
	desc := "forest: " + f.describe()
	var b *fbuilt
	var err error
	if p, pv, where := harness.Safe(func() { b, err = f.build() }); p {
		res.Violate("panic", "panic %q at %s building %s", pv, where, desc)
		return
	}
	res.Eval(1)
	if err != nil {
		res.Violate("build-error", "building the configurations failed: %v; %s", err, desc)
		return
	}
	res.SetAdd("forest_shape", fmt.Sprintf("src%d-trees%d-res%d", len(f.srcs), len(f.trees), len(f.ress)))
	res.Ev("forest_cases", 1)
	for t := range f.trees {
		f.read(b, t)
		if !readTree(res, f, b, fmt.Sprintf("%s; reading %s with Env(%v)", desc, f.trees[t].label, f.envs), verbose) {
			return
		}
	}
}

func readTree(res *harness.R, f *forest, b *fbuilt, desc string, verbose bool) bool {
	root := f.trees[f.reading]
	keys := make([]string, 0, len(root.set))
	for k := range root.set {
		keys = append(keys, k)
	}
	sort.Strings(keys)
	allOK := true
	wants := map[string]fres{}
	all := &ftrace{where: map[int]map[int]bool{}, reading: f.reading} // everything evaluated when the whole tree is unpacked
	for _, k := range keys {
		d := root.set[k]
		tr := &ftrace{where: map[int]map[int]bool{}, reading: f.reading}
		tr.enter(f.reading, k)
		want := f.evalDef(f.reading, d, tr)
		all.stack = nil
		all.enter(f.reading, k)
		f.evalDef(f.reading, d, all)
		if tr.cyclic {
			// a setting is entered again while it is being evaluated: cycles
			// are C08's business
			res.Ev("forest_reads_not_compared_model_meets_a_cycle", 1)
			allOK = false
			continue
		}
		wants[k] = want
		if want.isErr {
			allOK = false
		}
		if !d.ex.HasVar() && !strings.Contains(d.text, "$") {
			continue // a plain string without any escape
		}
		if d.ex.HasVar() {
			res.Key(desc + "|" + k)
		}
		res.Ev("forest_settings_read", 1)
		if tr.multiTree() {
			res.Ev("forest_reads_evaluating_one_copied_expression_in_several_trees", 1)
		}
		if tr.envExpr {
			res.Ev("forest_reads_evaluating_an_expression_living_in_an_env", 1)
		}
		if tr.sameName {
			res.Ev("forest_reads_with_one_name_being_evaluated_in_two_trees_at_once", 1)
		}
		if tr.twoEnvs {
			res.Ev("forest_reads_with_one_name_being_evaluated_in_two_envs_at_once", 1)
		}
		if tr.fromRes {
			res.Ev("forest_reads_answered_by_a_resolver", 1)
		}
		if endsInEscape(d.text) {
			res.Ev("settings_ending_in_an_escape_sequence", 1)
		}
		if !compareForest(res, f, b, k, d, want, tr, desc, verbose) {
			return false
		}
	}
	if !allOK || len(keys) == 0 {
		return true
	}
	// the whole tree in one Unpack: all settings are evaluated within one call
	var m map[string]interface{}
	var err error
	p, pv, where := harness.Safe(func() { err = b.root.Unpack(&m, b.opts...) })
	if p {
		res.Violate("panic", "panic %q at %s unpacking the whole tree; %s", pv, where, desc)
		return false
	}
	res.Eval(1)
	res.SetAdd("read_path", "forest Unpack(whole tree)")
	res.Ev("forest_whole_tree_unpacked", 1)
	if all.multiTree() {
		res.Ev("forest_whole_tree_unpacked_evaluating_one_copied_expression_in_several_trees", 1)
	}
	if err != nil {
		res.Violate(sameNameSig(all, err, "resolvable-reference-fails"), "Unpack of the whole tree failed with %v, the model evaluates every setting; %s", err, desc)
		return false
	}
	for _, k := range keys {
		var got interface{} = m
		for _, part := range strings.Split(k, ".") {
			mm, _ := got.(map[string]interface{})
			got = mm[part]
		}
		want := wants[k]
		d := root.set[k]
		if !sameValue(got, want.s, d) {
			res.Violate(sameNameSig(all, nil, forestSig(nil, all.multiTree(), fmt.Sprint(got), want.s, true)), "Unpack of the whole tree: %q = %#v, model %q; %s", k, got, want.s, desc)
			return false
		}
	}
	return true
}

// sameValue: an Unpack into interface{} yields the text, passed through the
// documented text->value step if the setting is a splice.
func sameValue(got interface{}, want string, d *fdef) bool {
	if s, ok := got.(string); ok && s == want {
		return true
	}
	if !d.ex.HasVar() || vx.ParseNeutral(want) {
		return false
	}
	return model.CanonIfc(got) == model.CanonIfc(vx.ExpectText(want))
}

// sameNameSig: deviations of reads during which one name was being resolved
// in two places at once (two trees, or a tree and nowhere) - no cycle, a name
// denotes the setting of the tree the referring expression lives in.
func sameNameSig(tr *ftrace, err error, sig string) string {
	switch {
	case tr == nil || !tr.sameName || strings.HasPrefix(sig, "escape-"):
		return sig
	case tr.twoEnvs && err != nil && vx.IsCyclicErr(err):
		return "name-being-evaluated-in-two-envs-reported-as-cyclic"
	case tr.twoEnvs:
		return "name-being-evaluated-in-two-envs-disturbs-expansion"
	case err != nil && vx.IsCyclicErr(err):
		return "name-being-evaluated-in-another-tree-reported-as-cyclic"
	}
	return "name-being-evaluated-in-another-tree-disturbs-expansion"
}

func forestSig(tr *ftrace, multi bool, got, want string, whole bool) string {
	if s := escapeSig(got, want); s != "" {
		return s
	}
	switch {
	case multi:
		return "expression-copied-into-several-trees-not-expanded-per-tree"
	case whole:
		return "forest-whole-unpack-differs-from-single-reads"
	case tr != nil && tr.envExpr:
		return "expression-living-in-env-expanded-wrongly"
	case tr != nil && tr.fromOther:
		return "forest-lookup-order-mismatch"
	}
	return "substitution-mismatch"
}

func compareForest(res *harness.R, f *forest, b *fbuilt, k string, d *fdef, want fres, tr *ftrace, desc string, verbose bool) bool {
	type reading struct {
		how string
		val interface{}
		err error
	}
	var reads []reading
	p, pv, where := harness.Safe(func() {
		str, err := b.root.String(k, -1, b.opts...)
		reads = append(reads, reading{"forest String()", str, err})
		v, err := vx.ReadField(b.root, k, nil, b.opts)
		reads = append(reads, reading{"forest Unpack(interface{})", v, err})
		v, err = vx.ReadField(b.root, k, reflect.TypeOf(""), b.opts)
		reads = append(reads, reading{"forest Unpack(string)", v, err})
		if strings.HasPrefix(k, "s.") {
			if ch, cerr := b.root.Child("s", -1, b.opts...); cerr == nil {
				str, err := ch.String(strings.TrimPrefix(k, "s."), -1, b.opts...)
				reads = append(reads, reading{"forest Child(s).String()", str, err})
			}
		}
	})
	if p {
		res.Violate("panic", "panic %q at %s reading %q; %s", pv, where, k, desc)
		return false
	}
	res.Eval(len(reads))
	cls := "value"
	if want.isErr {
		cls = "error-operator"
		if want.msg == "missing" {
			cls = "unresolvable"
		}
	}
	res.SetAdd("forest_expected_class", cls)
	for _, rd := range reads {
		res.SetAdd("read_path", rd.how)
		if verbose {
			fmt.Printf("%s %s -> %#v err=%v (model: %#v)\n", k, rd.how, rd.val, rd.err, want)
		}
		if want.isErr {
			if rd.err == nil {
				sig := "error-operator-did-not-fail"
				if cls == "unresolvable" {
					sig = "unresolvable-reference-not-an-error"
				}
				if tr.multiTree() {
					sig = "expression-copied-into-several-trees-not-expanded-per-tree"
				}
				res.Violate(sameNameSig(tr, nil, sig), "%s of %q returned %#v without error, model says %s (%s); %s", rd.how, k, rd.val, cls, want.msg, desc)
				return false
			}
			if cls == "error-operator" && !vx.MentionsMsg(rd.err, want.msg) {
				res.Violate(sameNameSig(tr, rd.err, "error-operator-message-lost"), "%s of %q failed with %v, expected the message %q; %s", rd.how, k, rd.err, want.msg, desc)
				return false
			}
			continue
		}
		if rd.err != nil {
			sig := "resolvable-reference-fails"
			if tr.multiTree() {
				sig = "expression-copied-into-several-trees-not-expanded-per-tree"
			}
			sig = sameNameSig(tr, rd.err, sig)
			res.Violate(sig, "%s of %q failed with %v, model says %q; %s", rd.how, k, rd.err, want.s, desc)
			return false
		}
		if !sameValue(rd.val, want.s, d) {
			res.Violate(sameNameSig(tr, nil, forestSig(tr, tr.multiTree(), fmt.Sprint(rd.val), want.s, false)), "%s of %q = %#v, model %q; %s", rd.how, k, rd.val, want.s, desc)
			return false
		}
	}
	return true
}

// --- spelling of escapes ---

// renderAlt writes the expression in the library's syntax like Ex.Render,
// drawing the spelling where the statement allows two: outside ${...} a '}'
// may be written as it is or as the escape $}.
func renderAlt(e *model.Ex, r *rand.Rand) string {
	if e.Kind == model.XLit {
		var b strings.Builder
		for i := 0; i < len(e.Text); i++ {
			switch c := e.Text[i]; {
			case c == '$':
				b.WriteString("$$")
			case c == '}' && r.Intn(2) == 0:
				b.WriteString("$}")
			default:
				b.WriteByte(c)
			}
		}
		return b.String()
	}
	if e.Kind == model.XCat {
		var b strings.Builder
		for _, k := range e.Kids {
			b.WriteString(renderAlt(k, r))
		}
		return b.String()
	}
	return e.Render(false)
}

// endsInEscape: the last two characters of the text form an escape sequence
// outside ${...}.
func endsInEscape(text string) bool {
	depth := 0
	for i := 0; i < len(text); i++ {
		switch {
		case text[i] == '$' && i+1 < len(text) && text[i+1] == '{':
			depth++
			i++
		case text[i] == '$' && i+1 < len(text) && (text[i+1] == '$' || text[i+1] == '}'):
			if depth == 0 && i+2 == len(text) {
				return true
			}
			i++
		case text[i] == '}' && depth > 0:
			depth--
		}
	}
	return false
}

// unescape applies what the statement says about $$ and $} to a text.
func unescape(s string) string {
	var b strings.Builder
	for i := 0; i < len(s); i++ {
		if s[i] == '$' && i+1 < len(s) && (s[i+1] == '$' || s[i+1] == '}') {
			i++
		}
		b.WriteByte(s[i])
	}
	return b.String()
}

// escapeSig classifies a deviation in which the text read still holds an
// escape sequence verbatim where the expected text has the escaped character.
func escapeSig(got, want string) string {
	if got == want || len(got) <= len(want) || unescape(got) == got {
		return ""
	}
	// some of the escape sequences left in got, unescaped, give want
	if !reachableByUnescaping(got, want) {
		return ""
	}
	if n := len(got); n >= 2 && got[n-2] == '$' && (got[n-1] == '$' || got[n-1] == '}') && !strings.HasSuffix(want, got[n-2:]) {
		return "escape-at-end-of-string-left-verbatim"
	}
	return "escape-sequence-left-verbatim"
}

// reachableByUnescaping: want results from got by unescaping a subset of the
// escape sequences in got (want may itself contain "$$" legitimately).
func reachableByUnescaping(got, want string) bool {
	type st struct{ i, j int }
	seen := map[st]bool{}
	var rec func(i, j int) bool
	rec = func(i, j int) bool {
		if i == len(got) {
			return j == len(want)
		}
		if seen[st{i, j}] {
			return false
		}
		seen[st{i, j}] = true
		if got[i] == '$' && i+1 < len(got) && (got[i+1] == '$' || got[i+1] == '}') {
			if j < len(want) && want[j] == got[i+1] && rec(i+2, j+1) {
				return true
			}
		}
		return j < len(want) && want[j] == got[i] && rec(i+1, j+1)
	}
	return rec(0, 0)
}
