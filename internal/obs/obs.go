// Package obs holds the observation helpers shared by the checks: reading a
// Config back through the public API and reducing it to canonical form.
package obs

import (
	"fmt"
	"reflect"
	"strings"

	ucfg "github.com/elastic/go-ucfg"

	"verif/internal/model"
)

// Top observes a config through Unpack into a map and into a slice and
// renders both parts canonically ("dict|list").
func Top(c *ucfg.Config, opts ...ucfg.Option) (string, error) {
	var m map[string]interface{}
	var a []interface{}
	if err := c.Unpack(&m, opts...); err != nil {
		return "", fmt.Errorf("unpack into map: %w", err)
	}
	if err := c.Unpack(&a, opts...); err != nil {
		return "", fmt.Errorf("unpack into slice: %w", err)
	}
	return model.CanonIfc(m) + "|" + model.CanonIfc(a), nil
}

// Dict observes a config through Unpack into a map only.
func Dict(c *ucfg.Config, opts ...ucfg.Option) (string, error) {
	var m map[string]interface{}
	if err := c.Unpack(&m, opts...); err != nil {
		return "", err
	}
	return model.CanonIfc(m), nil
}

// ErrInfo reduces an error to the components the oracles compare.
type ErrInfo struct {
	IsUcfg  bool
	Reason  error
	Class   error
	Message string
}

func Err(err error) ErrInfo {
	if err == nil {
		return ErrInfo{}
	}
	if e, ok := err.(ucfg.Error); ok {
		return ErrInfo{IsUcfg: true, Reason: e.Reason(), Class: e.Class(), Message: e.Error()}
	}
	return ErrInfo{Message: err.Error()}
}

// ReasonName names a well-known reason, or returns its text.
func ReasonName(err error) string {
	if err == nil {
		return "<nil>"
	}
	e, ok := err.(ucfg.Error)
	if !ok {
		return "raw:" + short(err.Error())
	}
	r := e.Reason()
	if r == nil {
		return "nil-reason"
	}
	for name, known := range reasons {
		if r == known {
			return name
		}
	}
	return "other:" + short(r.Error())
}

func short(s string) string {
	s = strings.ReplaceAll(s, "\n", " ")
	if len(s) > 60 {
		s = s[:60]
	}
	return s
}

var reasons = map[string]error{
	"ErrMissing": ucfg.ErrMissing, "ErrNoParse": ucfg.ErrNoParse, "ErrCyclicReference": ucfg.ErrCyclicReference,
	"ErrTypeNoArray": ucfg.ErrTypeNoArray, "ErrTypeMismatch": ucfg.ErrTypeMismatch, "ErrKeyTypeNotString": ucfg.ErrKeyTypeNotString,
	"ErrIndexOutOfRange": ucfg.ErrIndexOutOfRange, "ErrPointerRequired": ucfg.ErrPointerRequired,
	"ErrArraySizeMismatch": ucfg.ErrArraySizeMismatch, "ErrExpectedObject": ucfg.ErrExpectedObject,
	"ErrNilConfig": ucfg.ErrNilConfig, "ErrNilValue": ucfg.ErrNilValue, "ErrDuplicateKey": ucfg.ErrDuplicateKey,
	"ErrOverflow": ucfg.ErrOverflow, "ErrNegative": ucfg.ErrNegative, "ErrZeroValue": ucfg.ErrZeroValue,
	"ErrRequired": ucfg.ErrRequired, "ErrEmpty": ucfg.ErrEmpty, "ErrArrayEmpty": ucfg.ErrArrayEmpty,
	"ErrMapEmpty": ucfg.ErrMapEmpty, "ErrRegexEmpty": ucfg.ErrRegexEmpty, "ErrStringEmpty": ucfg.ErrStringEmpty,
}

// TypedErrorProblem checks the typed-error part of C14 on any error a check
// happens to see: non-nil errors of the configuration API must be ucfg.Error
// with non-nil Reason and Class. Returns "" if fine.
func TypedErrorProblem(err error) string {
	if err == nil {
		return ""
	}
	e, ok := err.(ucfg.Error)
	if !ok {
		return fmt.Sprintf("error is %T, not ucfg.Error: %v", err, short(err.Error()))
	}
	if isNilIface(e.Reason()) {
		return "ucfg.Error with nil Reason: " + short(err.Error())
	}
	if isNilIface(e.Class()) {
		return "ucfg.Error with nil Class: " + short(err.Error())
	}
	return ""
}

func isNilIface(v interface{}) bool {
	if v == nil {
		return true
	}
	rv := reflect.ValueOf(v)
	switch rv.Kind() {
	case reflect.Ptr, reflect.Map, reflect.Slice, reflect.Interface, reflect.Func, reflect.Chan:
		return rv.IsNil()
	}
	return false
}
