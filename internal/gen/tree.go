// Package gen holds the shared workload generators.
package gen

import (
	"math"
	"math/rand"

	"verif/internal/model"
)

// Keys is the small key pool: the same few names at every depth so that
// collisions, overlaps and type changes at the same key are the common case.
var Keys = []string{"a", "b", "c"}

// Prims is the primitive pool for data trees (VarExp off: any string is data).
var Prims = []interface{}{
	"s", "t", "", "x y", "ünï", "$a", "${b}", "a.b", "1,2", "[x]", "{y:1}", "tr\"ue'", "\\", "0", "null",
	int64(-3), int64(0), int64(math.MinInt64), int64(-1),
	uint64(7), uint64(1), uint64(math.MaxUint64), uint64(1) << 53,
	true, false,
	2.5, -0.5, 1e300, 3.0,
}

type TreeOpts struct {
	Depth    int
	Width    int      // max list length
	Keys     []string // key pool
	Prims    []interface{}
	NoNil    bool
	NoEmpty  bool
	NilTop   bool
	ListBias bool // lists of primitives are frequent (policies only matter where lists meet)
}

func (o TreeOpts) keys() []string {
	if o.Keys != nil {
		return o.Keys
	}
	return Keys
}

func (o TreeOpts) prims() []interface{} {
	if o.Prims != nil {
		return o.Prims
	}
	return Prims
}

func (o TreeOpts) width() int {
	if o.Width > 0 {
		return o.Width
	}
	return 3
}

// Tree generates a node: lists are common and keys repeat at all depths.
func Tree(r *rand.Rand, o TreeOpts, depth int) *model.Node {
	k := r.Intn(11)
	if depth <= 0 {
		k = r.Intn(4)
		if o.ListBias && r.Intn(3) == 0 {
			n := model.List()
			p := o.prims()
			for i, c := 0, r.Intn(o.width()+1); i < c; i++ {
				n.A = append(n.A, model.P(p[r.Intn(len(p))]))
			}
			return n
		}
	}
	switch {
	case k < 3:
		p := o.prims()
		return model.P(p[r.Intn(len(p))])
	case k == 3:
		if o.NoNil {
			p := o.prims()
			return model.P(p[r.Intn(len(p))])
		}
		return model.Nil()
	case k == 4:
		if o.NoEmpty {
			return model.P("e")
		}
		if r.Intn(2) == 0 {
			return model.Dict()
		}
		return model.List()
	case k < 8:
		n := model.Dict()
		for _, key := range o.keys() {
			if r.Intn(3) > 0 {
				n.D[key] = Tree(r, o, depth-1)
			}
		}
		return n
	default:
		n := model.List()
		for i, c := 0, r.Intn(o.width()+1); i < c; i++ {
			n.A = append(n.A, Tree(r, o, depth-1))
		}
		return n
	}
}

// Top generates a top-level container.
func Top(r *rand.Rand, o TreeOpts, depth int) *model.Node {
	for {
		n := Tree(r, o, depth)
		if n.IsSub() {
			return n
		}
	}
}

// TopDict generates a top-level dictionary.
func TopDict(r *rand.Rand, o TreeOpts, depth int) *model.Node {
	for {
		n := Tree(r, o, depth)
		if n.IsSub() && !n.HasA {
			return n
		}
	}
}

// Mutate derives a correlated operand from n: keep / replace / drop / add per
// node, lists lengthened, shortened, elements edited.
func Mutate(r *rand.Rand, o TreeOpts, n *model.Node, depth int) *model.Node {
	if n == nil {
		return Tree(r, o, depth)
	}
	x := r.Intn(10)
	if x == 0 {
		return Tree(r, o, depth)
	}
	if !n.IsSub() {
		if x < 3 {
			return Tree(r, o, depth)
		}
		return n.Copy()
	}
	m := &model.Node{Kind: model.KSub, HasA: n.HasA}
	if n.D != nil {
		m.D = map[string]*model.Node{}
		for _, k := range n.SortedKeys() {
			if r.Intn(6) == 0 {
				continue
			}
			m.D[k] = Mutate(r, o, n.D[k], depth-1)
		}
		if r.Intn(3) == 0 {
			ks := o.keys()
			m.D[ks[r.Intn(len(ks))]] = Tree(r, o, depth-1)
		}
	}
	for _, v := range n.A {
		if r.Intn(5) == 0 {
			continue
		}
		m.A = append(m.A, Mutate(r, o, v, depth-1))
	}
	if n.HasA && r.Intn(2) == 0 {
		m.A = append(m.A, Tree(r, o, depth-1))
	}
	return m
}

// MutateTop is Mutate restricted to results that are containers.
func MutateTop(r *rand.Rand, o TreeOpts, n *model.Node, depth int) *model.Node {
	for i := 0; i < 50; i++ {
		m := Mutate(r, o, n, depth)
		if m.IsSub() {
			return m
		}
	}
	return Top(r, o, depth)
}

// Chain draws a chain of k operands, each a mutation of the previous one with
// probability 3/4 and independent otherwise.
func Chain(r *rand.Rand, o TreeOpts, k, depth int) []*model.Node {
	out := []*model.Node{Top(r, o, depth)}
	for len(out) < k {
		if r.Intn(4) > 0 {
			out = append(out, MutateTop(r, o, out[len(out)-1], depth))
		} else {
			out = append(out, Top(r, o, depth))
		}
	}
	return out
}
