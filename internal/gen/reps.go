package gen

import (
	"fmt"
	"math/rand"
	"reflect"
	"strings"

	"verif/internal/model"
)

// ToMapI renders the tree with interface-keyed maps (what YAML decoders give).
func ToMapI(n *model.Node) interface{} {
	if n == nil || n.Kind == model.KNil {
		return nil
	}
	if n.Kind == model.KPrim {
		return n.Prim
	}
	if n.HasA || len(n.A) > 0 {
		l := make([]interface{}, 0, len(n.A))
		for _, v := range n.A {
			l = append(l, ToMapI(v))
		}
		return l
	}
	m := make(map[interface{}]interface{}, len(n.D))
	for k, v := range n.D {
		m[k] = ToMapI(v)
	}
	return m
}

var ifaceT = reflect.TypeOf((*interface{})(nil)).Elem()

func tagSafe(k string) bool {
	return k != "" && !strings.ContainsAny(k, ",\"`\\") && k != "-"
}

// ToStruct renders dictionaries as run-time built struct types (one field per
// key, tagged with the key), lists as []interface{}. ok is false when a key
// cannot be written as a struct tag.
func ToStruct(r *rand.Rand, n *model.Node) (v interface{}, ok bool) {
	rv, ok := toStruct(r, n)
	if !ok {
		return nil, false
	}
	if !rv.IsValid() {
		return nil, true
	}
	return rv.Interface(), true
}

func toStruct(r *rand.Rand, n *model.Node) (reflect.Value, bool) {
	if n == nil || n.Kind == model.KNil {
		return reflect.Value{}, true
	}
	if n.Kind == model.KPrim {
		return reflect.ValueOf(n.Prim), true
	}
	if n.HasA || len(n.A) > 0 {
		l := make([]interface{}, 0, len(n.A))
		for _, e := range n.A {
			ev, ok := toStruct(r, e)
			if !ok {
				return reflect.Value{}, false
			}
			if ev.IsValid() {
				l = append(l, ev.Interface())
			} else {
				l = append(l, nil)
			}
		}
		return reflect.ValueOf(l), true
	}
	keys := n.SortedKeys()
	if r != nil {
		r.Shuffle(len(keys), func(i, j int) { keys[i], keys[j] = keys[j], keys[i] })
	}
	fields := make([]reflect.StructField, 0, len(keys))
	vals := make([]reflect.Value, 0, len(keys))
	for i, k := range keys {
		if !tagSafe(k) {
			return reflect.Value{}, false
		}
		ev, ok := toStruct(r, n.D[k])
		if !ok {
			return reflect.Value{}, false
		}
		ft := ifaceT
		// half of the time use the concrete type (pointer for nested structs)
		if ev.IsValid() && r != nil && r.Intn(2) == 0 {
			ft = ev.Type()
		}
		fields = append(fields, reflect.StructField{
			Name: fmt.Sprintf("F%d", i),
			Type: ft,
			Tag:  reflect.StructTag(fmt.Sprintf(`config:"%s"`, k)),
		})
		vals = append(vals, ev)
	}
	st := reflect.StructOf(fields)
	sv := reflect.New(st).Elem()
	for i, ev := range vals {
		if ev.IsValid() {
			sv.Field(i).Set(ev)
		}
	}
	if r != nil && r.Intn(3) == 0 {
		p := reflect.New(st)
		p.Elem().Set(sv)
		return p, true
	}
	return sv, true
}

// ToTyped renders homogeneous containers with typed maps/slices/arrays
// (map[string]T, []T, [N]T) and everything else generically.
func ToTyped(r *rand.Rand, n *model.Node) interface{} {
	if n == nil || n.Kind == model.KNil {
		return nil
	}
	if n.Kind == model.KPrim {
		return n.Prim
	}
	if n.HasA || len(n.A) > 0 {
		if t, ok := homogeneous(n.A); ok && len(n.A) > 0 {
			if r.Intn(2) == 0 {
				s := reflect.MakeSlice(reflect.SliceOf(t), len(n.A), len(n.A))
				for i, e := range n.A {
					s.Index(i).Set(reflect.ValueOf(e.Prim))
				}
				return s.Interface()
			}
			a := reflect.New(reflect.ArrayOf(len(n.A), t)).Elem()
			for i, e := range n.A {
				a.Index(i).Set(reflect.ValueOf(e.Prim))
			}
			if r.Intn(2) == 0 {
				p := reflect.New(a.Type())
				p.Elem().Set(a)
				return p.Interface()
			}
			return a.Interface()
		}
		l := make([]interface{}, 0, len(n.A))
		for _, v := range n.A {
			l = append(l, ToTyped(r, v))
		}
		return l
	}
	var vals []*model.Node
	for _, v := range n.D {
		vals = append(vals, v)
	}
	if t, ok := homogeneous(vals); ok && len(vals) > 0 {
		m := reflect.MakeMap(reflect.MapOf(reflect.TypeOf(""), t))
		for k, e := range n.D {
			m.SetMapIndex(reflect.ValueOf(k), reflect.ValueOf(e.Prim))
		}
		return m.Interface()
	}
	m := make(map[string]interface{}, len(n.D))
	for k, v := range n.D {
		m[k] = ToTyped(r, v)
	}
	return m
}

func homogeneous(ns []*model.Node) (reflect.Type, bool) {
	var t reflect.Type
	for _, e := range ns {
		if e == nil || e.Kind != model.KPrim {
			return nil, false
		}
		et := reflect.TypeOf(e.Prim)
		if t == nil {
			t = et
		} else if t != et {
			return nil, false
		}
	}
	return t, t != nil
}
