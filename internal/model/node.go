// Package model holds the executable reference models the monitors compare
// the library with: plain (dict, list) trees, the merge model, the tree store
// and the variable expansion evaluator. They are written from the property
// statements, not from the library's code.
package model

import (
	"fmt"
	"math"
	"math/big"
	"sort"
	"strconv"
	"strings"
)

type Kind int

const (
	KNil Kind = iota
	KPrim
	KSub
)

// Node is a plain configuration tree node. A sub node may carry a dictionary
// part and a list part at the same time (the library allows it).
type Node struct {
	Kind Kind
	Prim interface{} // bool, int64, uint64, float64, string
	D    map[string]*Node
	A    []*Node
	HasA bool // list part exists (possibly empty)
}

func Nil() *Node             { return &Node{Kind: KNil} }
func P(v interface{}) *Node  { return &Node{Kind: KPrim, Prim: v} }
func Dict() *Node            { return &Node{Kind: KSub, D: map[string]*Node{}} }
func List(el ...*Node) *Node { return &Node{Kind: KSub, A: el, HasA: true} }
func (n *Node) IsSub() bool  { return n != nil && n.Kind == KSub }
func (n *Node) IsNil() bool  { return n == nil || n.Kind == KNil }
func (n *Node) IsPrim() bool { return n != nil && n.Kind == KPrim }
func (n *Node) Set(k string, v *Node) *Node {
	if n.D == nil {
		n.D = map[string]*Node{}
	}
	n.D[k] = v
	return n
}

func (n *Node) Copy() *Node {
	if n == nil {
		return nil
	}
	m := &Node{Kind: n.Kind, Prim: n.Prim, HasA: n.HasA}
	if n.D != nil {
		m.D = make(map[string]*Node, len(n.D))
		for k, v := range n.D {
			m.D[k] = v.Copy()
		}
	}
	if n.A != nil {
		m.A = make([]*Node, len(n.A))
		for i, v := range n.A {
			m.A[i] = v.Copy()
		}
	}
	return m
}

// SortedKeys returns the dictionary keys in sorted order.
func (n *Node) SortedKeys() []string {
	keys := make([]string, 0, len(n.D))
	for k := range n.D {
		keys = append(keys, k)
	}
	sort.Strings(keys)
	return keys
}

// Size counts nodes.
func (n *Node) Size() int {
	if n == nil {
		return 0
	}
	s := 1
	for _, v := range n.D {
		s += v.Size()
	}
	for _, v := range n.A {
		s += v.Size()
	}
	return s
}

// NumCanon renders a number by exact value so that int64(1), uint64(1) and
// 1.0 compare equal.
func NumCanon(v interface{}) string {
	switch x := v.(type) {
	case int:
		return strconv.FormatInt(int64(x), 10)
	case int8:
		return strconv.FormatInt(int64(x), 10)
	case int16:
		return strconv.FormatInt(int64(x), 10)
	case int32:
		return strconv.FormatInt(int64(x), 10)
	case int64:
		return strconv.FormatInt(x, 10)
	case uint:
		return strconv.FormatUint(uint64(x), 10)
	case uint8:
		return strconv.FormatUint(uint64(x), 10)
	case uint16:
		return strconv.FormatUint(uint64(x), 10)
	case uint32:
		return strconv.FormatUint(uint64(x), 10)
	case uint64:
		return strconv.FormatUint(x, 10)
	case float32:
		return NumCanon(float64(x))
	case float64:
		if math.IsNaN(x) {
			return "NaN"
		}
		if math.IsInf(x, 0) {
			if x > 0 {
				return "+Inf"
			}
			return "-Inf"
		}
		if x == math.Trunc(x) && math.Abs(x) < 1e300 {
			bf := new(big.Float).SetFloat64(x)
			bi, _ := bf.Int(nil)
			return bi.String()
		}
		return strconv.FormatFloat(x, 'g', -1, 64)
	}
	return fmt.Sprintf("?%T:%v", v, v)
}

// PrimCanon renders a primitive canonically.
func PrimCanon(v interface{}) string {
	switch x := v.(type) {
	case nil:
		return "nil"
	case bool:
		if x {
			return "true"
		}
		return "false"
	case string:
		return strconv.Quote(x)
	default:
		return NumCanon(v)
	}
}

// Canon renders a tree canonically: nil == {} == [] == absent key inside
// dictionaries; nil list elements stay; a node with both parts is rendered as
// a map whose list part sits under the decimal keys.
func (n *Node) Canon() string {
	var b strings.Builder
	n.canon(&b)
	return b.String()
}

func (n *Node) canon(b *strings.Builder) {
	if n == nil || n.Kind == KNil {
		b.WriteString("nil")
		return
	}
	if n.Kind == KPrim {
		b.WriteString(PrimCanon(n.Prim))
		return
	}
	if len(n.D) == 0 && len(n.A) == 0 {
		b.WriteString("nil")
		return
	}
	if len(n.D) > 0 {
		all := make(map[string]string, len(n.D)+len(n.A))
		for k, v := range n.D {
			all[k] = v.Canon()
		}
		for i, v := range n.A {
			all[strconv.Itoa(i)] = v.Canon()
		}
		keys := make([]string, 0, len(all))
		for k, c := range all {
			if c != "nil" {
				keys = append(keys, k)
			}
		}
		if len(keys) == 0 {
			b.WriteString("nil")
			return
		}
		sort.Strings(keys)
		b.WriteByte('{')
		for i, k := range keys {
			if i > 0 {
				b.WriteByte(',')
			}
			b.WriteString(strconv.Quote(k))
			b.WriteByte(':')
			b.WriteString(all[k])
		}
		b.WriteByte('}')
		return
	}
	b.WriteByte('[')
	for i, v := range n.A {
		if i > 0 {
			b.WriteByte(',')
		}
		v.canon(b)
	}
	b.WriteByte(']')
}

// CanonTop renders a top-level config the way it is observed: the dictionary
// part (Unpack into a map) and the list part (Unpack into a slice) separately.
func (n *Node) CanonTop() string {
	d := &Node{Kind: KSub, D: n.D}
	a := &Node{Kind: KSub, A: n.A, HasA: true}
	return d.Canon() + "|" + a.Canon()
}

// CanonIfc renders a value produced by Unpack into interface{} (or any
// generic Go data made of maps, slices and primitives) in the same form.
func CanonIfc(v interface{}) string {
	var b strings.Builder
	canonIfc(&b, v)
	return b.String()
}

func canonIfc(b *strings.Builder, v interface{}) {
	switch x := v.(type) {
	case nil:
		b.WriteString("nil")
	case map[string]interface{}:
		keys := make([]string, 0, len(x))
		vals := map[string]string{}
		for k, e := range x {
			c := CanonIfc(e)
			if c != "nil" {
				keys = append(keys, k)
				vals[k] = c
			}
		}
		if len(keys) == 0 {
			b.WriteString("nil")
			return
		}
		sort.Strings(keys)
		b.WriteByte('{')
		for i, k := range keys {
			if i > 0 {
				b.WriteByte(',')
			}
			b.WriteString(strconv.Quote(k))
			b.WriteByte(':')
			b.WriteString(vals[k])
		}
		b.WriteByte('}')
	case map[interface{}]interface{}:
		m := make(map[string]interface{}, len(x))
		for k, e := range x {
			m[fmt.Sprint(k)] = e
		}
		canonIfc(b, m)
	case []interface{}:
		if len(x) == 0 {
			b.WriteString("nil")
			return
		}
		b.WriteByte('[')
		for i, e := range x {
			if i > 0 {
				b.WriteByte(',')
			}
			canonIfc(b, e)
		}
		b.WriteByte(']')
	default:
		b.WriteString(PrimCanon(v))
	}
}

// FromIfc converts generic Go data into a Node tree.
func FromIfc(v interface{}) *Node {
	switch x := v.(type) {
	case nil:
		return Nil()
	case map[string]interface{}:
		n := Dict()
		for k, e := range x {
			n.D[k] = FromIfc(e)
		}
		return n
	case []interface{}:
		n := List()
		for _, e := range x {
			n.A = append(n.A, FromIfc(e))
		}
		return n
	case int:
		return P(int64(x))
	case float32:
		return P(float64(x))
	default:
		return P(v)
	}
}

// ToGo converts a node to generic Go data (map[string]interface{} /
// []interface{} / primitives). A node with both parts cannot be expressed and
// is rendered by its dictionary part only; generators for ToGo never produce
// such nodes.
func (n *Node) ToGo() interface{} {
	if n == nil || n.Kind == KNil {
		return nil
	}
	if n.Kind == KPrim {
		return n.Prim
	}
	if (n.HasA || len(n.A) > 0) && len(n.D) == 0 {
		l := make([]interface{}, 0, len(n.A))
		for _, v := range n.A {
			l = append(l, v.ToGo())
		}
		return l
	}
	m := make(map[string]interface{}, len(n.D))
	for k, v := range n.D {
		m[k] = v.ToGo()
	}
	return m
}

// String is a compact debugging form (keeps nils and empties visible).
func (n *Node) String() string {
	if n == nil {
		return "<absent>"
	}
	switch n.Kind {
	case KNil:
		return "null"
	case KPrim:
		return PrimCanon(n.Prim)
	}
	var parts []string
	for _, k := range n.SortedKeys() {
		parts = append(parts, k+":"+n.D[k].String())
	}
	s := ""
	if n.D != nil || !n.HasA {
		s = "{" + strings.Join(parts, ",") + "}"
	}
	if n.HasA || len(n.A) > 0 {
		var el []string
		for _, v := range n.A {
			el = append(el, v.String())
		}
		s += "[" + strings.Join(el, ",") + "]"
	}
	return s
}
