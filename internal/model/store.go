package model

import (
	"fmt"
	"math"
	"strconv"
	"strings"
)

// The tree store: a plain tree of dictionaries and lists subjected to the
// same path-addressed operations as a Config (C12).

// Fld is one path segment: a name or a list index.
type Fld struct {
	Name string
	Idx  int
	IsI  bool
}

func (f Fld) String() string {
	if f.IsI {
		return strconv.Itoa(f.Idx)
	}
	return f.Name
}

// ParseField classifies a segment: a non-negative integer literal up to maxIdx
// is an index, everything else a name (C20 is the property about this rule;
// the store workloads only use plain decimal indices and names).
func ParseField(s string, maxIdx int64) Fld {
	if v, err := strconv.ParseInt(s, 0, 64); err == nil && v >= 0 && v <= maxIdx {
		return Fld{Idx: int(v), IsI: true}
	}
	return Fld{Name: s}
}

// ParsePath builds the address from (name, idx) as the API documents it: an
// empty name addresses list position idx; otherwise the name (split at sep if
// sep is set), followed by idx if idx >= 0.
func ParsePath(name string, idx int, sep string) []Fld {
	if name == "" {
		return []Fld{{Idx: idx, IsI: true}}
	}
	var fs []Fld
	if sep == "" {
		fs = []Fld{ParseField(name, 1024)}
	} else {
		for _, e := range strings.Split(name, sep) {
			fs = append(fs, ParseField(e, 1024))
		}
	}
	if idx >= 0 {
		fs = append(fs, Fld{Idx: idx, IsI: true})
	}
	return fs
}

func PathString(fs []Fld) string {
	var s []string
	for _, f := range fs {
		s = append(s, f.String())
	}
	return strings.Join(s, ".")
}

type GetErr int

const (
	ENone GetErr = iota
	EMissing
	EExpObj
)

// getField: returns (node, err). (nil, ENone) means "named key absent".
func getField(f Fld, elem *Node) (*Node, GetErr) {
	if !f.IsI {
		if elem.Kind == KPrim {
			return nil, EExpObj
		}
		if elem.Kind == KNil {
			return nil, ENone
		}
		return elem.D[f.Name], ENone
	}
	if elem.Kind == KPrim {
		if f.Idx == 0 {
			return elem, ENone // a primitive answers index 0 as itself
		}
		return nil, EExpObj
	}
	if elem.Kind == KNil {
		return nil, EMissing
	}
	if f.Idx < 0 || f.Idx >= len(elem.A) {
		return nil, EMissing
	}
	return elem.A[f.Idx], ENone
}

// Get returns the node at the address or an error kind.
func Get(root *Node, fs []Fld) (*Node, GetErr) {
	cur := root
	for ; len(fs) > 1; fs = fs[1:] {
		next, e := getField(fs[0], cur)
		if e != ENone {
			return nil, e
		}
		if next == nil {
			return nil, EMissing
		}
		cur = next
	}
	v, e := getField(fs[0], cur)
	if e != ENone {
		return nil, EMissing
	}
	if v == nil {
		return nil, EMissing
	}
	return v, ENone
}

// Has mirrors Config.Has: (exists, isError). A primitive in the middle of the
// path is an error; a nil element exists.
func Has(root *Node, fs []Fld) (bool, bool) {
	cur := root
	for ; len(fs) > 0; fs = fs[1:] {
		next, e := getField(fs[0], cur)
		if e == EMissing {
			return false, false
		}
		if e == EExpObj {
			return false, true
		}
		if next == nil {
			return false, false
		}
		cur = next
	}
	return true, false
}

func setField(f Fld, elem *Node, v *Node) bool {
	if !elem.IsSub() {
		return false
	}
	if !f.IsI {
		if elem.D == nil {
			elem.D = map[string]*Node{}
		}
		elem.D[f.Name] = v
		return true
	}
	if f.Idx < 0 {
		return false
	}
	for len(elem.A) <= f.Idx {
		elem.A = append(elem.A, Nil()) // writing past the end pads with nils
	}
	elem.HasA = true
	elem.A[f.Idx] = v
	return true
}

// Set writes val at the address, creating intermediates; a nil or missing
// intermediate is replaced by freshly built ones; a primitive intermediate
// makes the write fail before anything is changed. Returns ok.
func Set(root *Node, fs []Fld, val *Node) bool {
	nd := root
	for ; len(fs) > 1; fs = fs[1:] {
		v, e := getField(fs[0], nd)
		if e == EMissing {
			break
		}
		if e != ENone {
			return false
		}
		if v == nil || v.Kind == KNil {
			break
		}
		nd = v
	}
	if !nd.IsSub() {
		return false
	}
	for ; len(fs) > 1; fs = fs[:len(fs)-1] {
		next := &Node{Kind: KSub}
		setField(fs[len(fs)-1], next, val)
		val = next
	}
	return setField(fs[0], nd, val)
}

// Remove deletes the addressed setting. Returns (removed, isError).
// Removing from a list shifts later elements down.
func Remove(root *Node, fs []Fld) (bool, bool) {
	cur := root
	for ; len(fs) > 1; fs = fs[1:] {
		next, e := getField(fs[0], cur)
		if e == EMissing {
			return false, false
		}
		if e != ENone {
			return false, true
		}
		if next == nil {
			return false, false
		}
		cur = next
	}
	if cur.Kind == KPrim {
		return false, true
	}
	if cur.Kind == KNil {
		return false, false
	}
	f := fs[0]
	if !f.IsI {
		if _, ok := cur.D[f.Name]; ok {
			delete(cur.D, f.Name)
			return true, false
		}
		return false, false
	}
	if f.Idx < 0 || f.Idx >= len(cur.A) {
		return false, false
	}
	cur.A = append(cur.A[:f.Idx], cur.A[f.Idx+1:]...)
	return true, false
}

// MergeCopying is the default-policy merge as the store sees it: like Merge,
// and every setting touched by the merge is a fresh object afterwards (views
// obtained earlier for those settings are no longer part of the tree).
func MergeCopying(to, from *Node, pol Policy) {
	Merge(to, from.Copy(), nil, Global(pol))
	for k := range from.D {
		if c, ok := to.D[k]; ok {
			to.D[k] = c.Copy()
		}
	}
	for i := range to.A {
		to.A[i] = to.A[i].Copy()
	}
}

// Reachable reports whether target is part of the tree below root (identity).
func Reachable(root, target *Node) bool {
	if root == target {
		return true
	}
	if root == nil {
		return false
	}
	for _, v := range root.D {
		if Reachable(v, target) {
			return true
		}
	}
	for _, v := range root.A {
		if Reachable(v, target) {
			return true
		}
	}
	return false
}

// --- getter semantics on a found node (small, uncontroversial values only;
// boundaries are C03's business) ---

type GetRes struct {
	Err bool
	S   string
	I   int64
	U   uint64
	F   float64
	B   bool
}

func AsString(n *Node) GetRes {
	switch n.Kind {
	case KNil:
		return GetRes{S: "null"}
	case KSub:
		return GetRes{Err: true}
	}
	switch v := n.Prim.(type) {
	case bool:
		return GetRes{S: fmt.Sprintf("%t", v)}
	case int64:
		return GetRes{S: strconv.FormatInt(v, 10)}
	case uint64:
		return GetRes{S: strconv.FormatUint(v, 10)}
	case float64:
		return GetRes{S: fmt.Sprintf("%v", v)}
	case string:
		return GetRes{S: v}
	}
	return GetRes{Err: true}
}

func AsInt(n *Node) GetRes {
	if n.Kind != KPrim {
		return GetRes{Err: true}
	}
	switch v := n.Prim.(type) {
	case int64:
		return GetRes{I: v}
	case uint64:
		if v > math.MaxInt64 {
			return GetRes{Err: true}
		}
		return GetRes{I: int64(v)}
	case float64:
		return GetRes{I: int64(v)}
	case string:
		i, err := strconv.ParseInt(v, 0, 64)
		return GetRes{I: i, Err: err != nil}
	}
	return GetRes{Err: true}
}

func AsUint(n *Node) GetRes {
	if n.Kind != KPrim {
		return GetRes{Err: true}
	}
	switch v := n.Prim.(type) {
	case int64:
		if v < 0 {
			return GetRes{Err: true}
		}
		return GetRes{U: uint64(v)}
	case uint64:
		return GetRes{U: v}
	case float64:
		if v < 0 {
			return GetRes{Err: true}
		}
		return GetRes{U: uint64(v)}
	case string:
		u, err := strconv.ParseUint(v, 0, 64)
		return GetRes{U: u, Err: err != nil}
	}
	return GetRes{Err: true}
}

func AsFloat(n *Node) GetRes {
	if n.Kind != KPrim {
		return GetRes{Err: true}
	}
	switch v := n.Prim.(type) {
	case int64:
		return GetRes{F: float64(v)}
	case uint64:
		return GetRes{F: float64(v)}
	case float64:
		return GetRes{F: v}
	case string:
		f, err := strconv.ParseFloat(v, 64)
		return GetRes{F: f, Err: err != nil}
	}
	return GetRes{Err: true}
}

func AsBool(n *Node) GetRes {
	if n.Kind != KPrim {
		return GetRes{Err: true}
	}
	switch v := n.Prim.(type) {
	case bool:
		return GetRes{B: v}
	case string:
		b, err := strconv.ParseBool(v)
		return GetRes{B: b, Err: err != nil}
	}
	return GetRes{Err: true}
}
