package model

import "strconv"

// Policy is a merge policy.
type Policy int

const (
	PDefault    Policy = iota // index-wise list merge
	PReplace                  // replace dictionaries and lists
	PArrReplace               // replace lists only
	PAppend
	PPrepend
)

func (p Policy) String() string {
	return [...]string{"default", "replace", "arr-replace", "append", "prepend"}[p]
}

// PolicyFn gives the policy in force at the node with the given path.
type PolicyFn func(path []string) Policy

func Global(p Policy) PolicyFn { return func([]string) Policy { return p } }

// Merge merges from into to (both sub nodes) following the statement of C01:
// union of dictionaries, recursion where both sides are containers, the new
// value otherwise (a nil never replaces a container), lists per policy.
func Merge(to, from *Node, path []string, pol PolicyFn) {
	p := pol(path)
	if len(from.D) > 0 {
		if p == PReplace {
			to.D = nil
		}
		for k, v := range from.D {
			if to.D == nil {
				to.D = map[string]*Node{}
			}
			to.D[k] = mergeValues(to.D[k], v, appendPath(path, k), pol)
		}
	}
	switch p {
	case PReplace, PArrReplace:
		if len(from.A) > 0 {
			to.A = nil
			for _, v := range from.A {
				to.A = append(to.A, v.Copy())
			}
			to.HasA = true
		}
	case PPrepend:
		if len(from.A) > 0 {
			na := make([]*Node, 0, len(from.A)+len(to.A))
			for _, v := range from.A {
				na = append(na, v.Copy())
			}
			to.A = append(na, to.A...)
			to.HasA = true
		}
	case PAppend:
		for _, v := range from.A {
			to.A = append(to.A, v.Copy())
			to.HasA = true
		}
	default:
		for i, v := range from.A {
			if i < len(to.A) {
				to.A[i] = mergeValues(to.A[i], v, appendPath(path, strconv.Itoa(i)), pol)
			} else {
				to.A = append(to.A, v.Copy())
				to.HasA = true
			}
		}
	}
}

func appendPath(path []string, k string) []string {
	q := make([]string, len(path)+1)
	copy(q, path)
	q[len(path)] = k
	return q
}

func mergeValues(old, v *Node, path []string, pol PolicyFn) *Node {
	if old == nil {
		return v.Copy()
	}
	if old.Kind == KNil && v.Kind == KNil {
		// not both containers: B's value - nil (the library stored an empty
		// object here until d2cf464)
		return v.Copy()
	}
	var subOld, subV *Node
	switch {
	case old.IsSub():
		subOld = old
	case old.Kind == KNil:
		subOld = &Node{Kind: KSub}
	default:
		return v.Copy()
	}
	switch {
	case v.IsSub():
		subV = v
	case v.Kind == KNil:
		subV = &Node{Kind: KSub}
	default:
		return v.Copy()
	}
	Merge(subOld, subV, path, pol)
	return subOld
}

// HasPrefix reports whether p is a prefix of q.
func HasPrefix(q, p []string) bool {
	if len(q) < len(p) {
		return false
	}
	for i := range p {
		if q[i] != p[i] {
			return false
		}
	}
	return true
}
