package model

import (
	"math/rand"
	"sort"
	"strings"
)

// Variable expansion model (C02, C08): expressions are trees; the evaluator
// keeps an explicit evaluation stack (push on entering a reference, pop on
// leaving) so that re-entry is exactly "the name is on the stack".

type ExKind int

const (
	XLit ExKind = iota
	XRef        // ${name}
	XDef        // ${name:rhs}
	XAlt        // ${name:+rhs}
	XErr        // ${name:?rhs}
	XCat        // concatenation
)

type Ex struct {
	Kind ExKind
	Text string // XLit
	Name *Ex    // name expression of a reference/operator
	Rhs  *Ex
	Kids []*Ex
}

func Lit(s string) *Ex    { return &Ex{Kind: XLit, Text: s} }
func Ref(name string) *Ex { return &Ex{Kind: XRef, Name: Lit(name)} }

func escTop(s string) string { return strings.ReplaceAll(s, "$", "$$") }
func escVar(s string) string {
	return strings.ReplaceAll(strings.ReplaceAll(s, "$", "$$"), "}", "$}")
}

// Render writes the expression in the library's ${...} syntax. Outside ${}
// only '$' needs escaping ($$); inside, '}' is written $} as well.
func (e *Ex) Render(inVar bool) string {
	switch e.Kind {
	case XLit:
		if inVar {
			return escVar(e.Text)
		}
		return escTop(e.Text)
	case XRef:
		return "${" + e.Name.Render(true) + "}"
	case XDef:
		return "${" + e.Name.Render(true) + ":" + e.Rhs.Render(true) + "}"
	case XAlt:
		return "${" + e.Name.Render(true) + ":+" + e.Rhs.Render(true) + "}"
	case XErr:
		return "${" + e.Name.Render(true) + ":?" + e.Rhs.Render(true) + "}"
	default:
		var b strings.Builder
		for _, k := range e.Kids {
			b.WriteString(k.Render(inVar))
		}
		return b.String()
	}
}

// IsSingleRef: the setting is exactly one reference with a literal name.
func (e *Ex) IsSingleRef() bool {
	return e.Kind == XRef && e.Name.Kind == XLit
}

// HasVar reports whether the expression contains any ${}.
func (e *Ex) HasVar() bool {
	switch e.Kind {
	case XLit:
		return false
	case XCat:
		for _, k := range e.Kids {
			if k.HasVar() {
				return true
			}
		}
		return false
	}
	return true
}

// Setting is a root-level setting of the world: an expression, or a typed
// plain value (Val != nil): int64/uint64/float64/bool, or a container *Node.
type Setting struct {
	Ex  *Ex
	Val interface{}
}

// World is a configuration with its lookup layers.
type World struct {
	Root map[string]*Setting // full dotted path -> setting
	Envs []map[string]string // in the order they were added
	Ress []map[string]string // in the order they were added
}

// Res is the outcome of a model evaluation.
type Res struct {
	S     string
	Val   interface{} // typed value when the evaluation ended in a plain typed setting via a single reference
	IsErr bool
	// Container: the reference ended in an object/list (Val is the *Node); only a
	// setting that is exactly one reference can carry it, any string context fails
	Container bool
	Cyclic    bool   // the error is an unabsorbed re-entry
	Msg       string // message of a ${x:?m} failure, or "missing"/"unresolved"
}

// Trace records what an evaluation did; the checks use it to decide the
// comparison class.
type Trace struct {
	Steps    int
	ReEntry  bool           // some reference was re-entered (cycle met)
	Absorbed bool           // a re-entry was absorbed by a resolver or by an operator
	Enter    map[string]int // how often each root setting was entered
	Layers   []string       // layer that answered each resolved reference: root/envN/resN
	Budget   bool
}

func (t *Trace) MultiEnter() bool {
	for _, n := range t.Enter {
		if n > 1 {
			return true
		}
	}
	return false
}

type Evaluator struct {
	W *World
	T *Trace
}

func NewEvaluator(w *World) *Evaluator {
	return &Evaluator{W: w, T: &Trace{Enter: map[string]int{}}}
}

func onStack(st []string, n string) bool {
	for _, x := range st {
		if x == n {
			return true
		}
	}
	return false
}

func (ev *Evaluator) fromResolvers(name string) (string, int, bool) {
	for i := len(ev.W.Ress) - 1; i >= 0; i-- {
		if v, ok := ev.W.Ress[i][name]; ok {
			return v, i, true
		}
	}
	return "", -1, false
}

func (ev *Evaluator) layer(kind string, i int) {
	if i >= 0 {
		ev.T.Layers = append(ev.T.Layers, kind+string(rune('0'+i)))
	} else {
		ev.T.Layers = append(ev.T.Layers, kind)
	}
}

// refValue resolves a name in value context: the tree the setting lives in
// (from its root), then the Env configs most recently added first, then the
// resolvers most recently added first. A name that is still being evaluated is
// a cyclic reference, which a resolver that knows the name absorbs. With deep
// set, an object reached through the name is evaluated member by member (what
// unpacking it does); otherwise it is only recognised as an object.
func (ev *Evaluator) refValue(name string, st []string, deep bool) Res {
	ev.T.Steps++
	if ev.T.Steps > 500000 {
		ev.T.Budget = true
		return Res{IsErr: true, Msg: "budget"}
	}
	if onStack(st, name) {
		ev.T.ReEntry = true
		if v, i, ok := ev.fromResolvers(name); ok {
			ev.T.Absorbed = true
			if v == "" {
				return Res{IsErr: true, Msg: "unresolved"}
			}
			ev.layer("res", i)
			return Res{S: v}
		}
		return Res{IsErr: true, Cyclic: true}
	}
	if _, ok := ev.W.Root[name]; ok {
		ev.T.Enter[name]++
		ev.layer("root", -1)
		return ev.EvalSetting(name, append(st, name), deep)
	}
	if members := ev.W.Members(name); len(members) > 0 {
		ev.T.Enter[name]++
		ev.layer("root", -1)
		if !deep {
			return Res{Container: true}
		}
		return ev.evalMembers(members, append(st, name))
	}
	for i := len(ev.W.Envs) - 1; i >= 0; i-- {
		if v, ok := ev.W.Envs[i][name]; ok {
			ev.layer("env", i)
			return Res{S: v}
		}
	}
	if v, i, ok := ev.fromResolvers(name); ok {
		if v == "" {
			return Res{IsErr: true, Msg: "unresolved"}
		}
		ev.layer("res", i)
		return Res{S: v}
	}
	return Res{IsErr: true, Msg: "missing"}
}

// refStr resolves a name in string context: an object is a type error there
// (and is not evaluated).
func (ev *Evaluator) refStr(name string, st []string) Res {
	r := ev.refValue(name, st, false)
	if r.Container {
		return Res{IsErr: true, Msg: "type"}
	}
	r.Val = nil
	return r
}

// EvalSetting evaluates the root setting key. A setting that is exactly one
// reference takes the referenced value (with its type, possibly an object);
// everything else is text.
func (ev *Evaluator) EvalSetting(key string, st []string, deep bool) Res {
	s := ev.W.Root[key]
	if s.Ex == nil {
		if n, ok := s.Val.(*Node); ok {
			return Res{Val: n, Container: true}
		}
		return Res{S: PlainString(s.Val), Val: s.Val}
	}
	if s.Ex.IsSingleRef() {
		return ev.refValue(s.Ex.Name.Text, st, deep)
	}
	r := ev.Eval(s.Ex, st)
	if !r.IsErr && s.Ex.HasVar() {
		// the substituted text of a setting passes the documented text->value
		// step before anybody sees it; for the texts generated here (words and
		// blanks) that step only strips surrounding white space
		if t := strings.TrimSpace(r.S); t != "" {
			r.S = t
		}
	}
	return r
}

// Members lists the settings below the object path name (sorted).
func (w *World) Members(name string) []string {
	var out []string
	for k := range w.Root {
		if strings.HasPrefix(k, name+".") {
			out = append(out, k)
		}
	}
	sort.Strings(out)
	return out
}

// evalMembers evaluates all members of an object; the first error wins (which
// member is met first is not pinned down, so callers only use the class).
func (ev *Evaluator) evalMembers(members []string, st []string) Res {
	var errs []Res
	for _, m := range members {
		ev.T.Enter[m]++
		r := ev.EvalSetting(m, st, true)
		if r.IsErr {
			errs = append(errs, r)
		}
	}
	if len(errs) == 0 {
		return Res{Container: true}
	}
	// which failing member is met first depends on enumeration order: the
	// object fails, and it fails as a cycle only if every failing member does
	out := Res{IsErr: true, Cyclic: true, Msg: "member"}
	for _, e := range errs {
		if !e.Cyclic {
			out.Cyclic = false
		}
	}
	if len(errs) == 1 {
		out.Msg = errs[0].Msg
	}
	return out
}

// exists: ${x:+a} only asks whether x is set.
func (ev *Evaluator) exists(name string, st []string) bool {
	if onStack(st, name) {
		ev.T.ReEntry = true
		ev.T.Absorbed = true
		v, _, ok := ev.fromResolvers(name)
		return ok && v != ""
	}
	if _, ok := ev.W.Root[name]; ok {
		return true
	}
	if len(ev.W.Members(name)) > 0 {
		return true
	}
	for i := len(ev.W.Envs) - 1; i >= 0; i-- {
		if _, ok := ev.W.Envs[i][name]; ok {
			return true
		}
	}
	v, _, ok := ev.fromResolvers(name)
	return ok && v != ""
}

// Eval evaluates an expression in string context.
func (ev *Evaluator) Eval(e *Ex, st []string) Res {
	switch e.Kind {
	case XLit:
		return Res{S: e.Text}
	case XCat:
		var b strings.Builder
		for _, k := range e.Kids {
			r := ev.Eval(k, st)
			if r.IsErr {
				return r
			}
			b.WriteString(r.S)
		}
		return Res{S: b.String()}
	case XRef:
		n := ev.Eval(e.Name, st)
		if n.IsErr {
			return n
		}
		return ev.refStr(n.S, st)
	case XDef:
		n := ev.Eval(e.Name, st)
		if n.IsErr || n.S == "" {
			if n.Cyclic {
				ev.T.Absorbed = true
			}
			return ev.Eval(e.Rhs, st)
		}
		v := ev.refStr(n.S, st)
		if v.IsErr || v.S == "" {
			if v.Cyclic {
				ev.T.Absorbed = true
			}
			return ev.Eval(e.Rhs, st)
		}
		return v
	case XAlt:
		n := ev.Eval(e.Name, st)
		if n.IsErr || n.S == "" {
			if n.Cyclic {
				ev.T.Absorbed = true
			}
			return Res{S: ""}
		}
		if !ev.exists(n.S, st) {
			return Res{S: ""}
		}
		return ev.Eval(e.Rhs, st)
	default: // XErr
		n := ev.Eval(e.Name, st)
		if n.Cyclic {
			ev.T.Absorbed = true
		}
		if !n.IsErr && n.S != "" {
			v := ev.refStr(n.S, st)
			if !v.IsErr && v.S != "" {
				return v
			}
			if v.Cyclic {
				ev.T.Absorbed = true
			}
		}
		m := ev.Eval(e.Rhs, st)
		if m.IsErr {
			return m
		}
		return Res{IsErr: true, Msg: m.S}
	}
}

// PlainString renders a typed plain value the way the library's toString does.
func PlainString(v interface{}) string {
	switch x := v.(type) {
	case string:
		return x
	case *Node:
		return "<container>"
	}
	return AsString(P(v)).S
}

// --- generation ---

type ExGen struct {
	Names []string // names that may be referenced
	Lits  []string
	// NameExprs allows computed names (${${n}} / ${${zz:n}}).
	NameExprs bool
}

func (g ExGen) name(r *rand.Rand, depth int) *Ex {
	if g.NameExprs && depth > 0 && r.Intn(6) == 0 {
		// a computed name: ${zz:<name>} yields <name> because zz is never defined
		return &Ex{Kind: XDef, Name: Lit("zz"), Rhs: Lit(g.Names[r.Intn(len(g.Names))])}
	}
	return Lit(g.Names[r.Intn(len(g.Names))])
}

// Normalize merges adjacent literals, drops empty ones inside concatenations
// and collapses one-element concatenations, so that the tree is exactly what
// its rendered text means (a concatenation of ${x} and "" IS the single
// reference ${x}).
func (e *Ex) Normalize() *Ex {
	if e == nil {
		return nil
	}
	e.Name = e.Name.Normalize()
	e.Rhs = e.Rhs.Normalize()
	if e.Kind != XCat {
		return e
	}
	var kids []*Ex
	for _, k := range e.Kids {
		k = k.Normalize()
		if k.Kind == XCat {
			kids = append(kids, k.Kids...)
		} else {
			kids = append(kids, k)
		}
	}
	var out []*Ex
	for _, k := range kids {
		if k.Kind == XLit {
			if k.Text == "" {
				continue
			}
			if len(out) > 0 && out[len(out)-1].Kind == XLit {
				out[len(out)-1] = Lit(out[len(out)-1].Text + k.Text)
				continue
			}
		}
		out = append(out, k)
	}
	switch len(out) {
	case 0:
		return Lit("")
	case 1:
		return out[0]
	}
	e.Kids = out
	return e
}

// Gen generates a normalized expression.
func (g ExGen) Gen(r *rand.Rand, depth int) *Ex { return g.gen(r, depth).Normalize() }

func (g ExGen) gen(r *rand.Rand, depth int) *Ex {
	k := r.Intn(10)
	if depth <= 0 {
		k = r.Intn(4)
	}
	switch {
	case k < 2:
		return Lit(g.Lits[r.Intn(len(g.Lits))])
	case k < 5:
		return &Ex{Kind: XRef, Name: g.name(r, depth)}
	case k < 6:
		return &Ex{Kind: XDef, Name: g.name(r, depth), Rhs: g.gen(r, depth-1)}
	case k < 7:
		return &Ex{Kind: XAlt, Name: g.name(r, depth), Rhs: g.gen(r, depth-1)}
	case k < 8:
		return &Ex{Kind: XErr, Name: g.name(r, depth), Rhs: Lit("boom")}
	default:
		n := 2 + r.Intn(2)
		c := &Ex{Kind: XCat}
		for i := 0; i < n; i++ {
			kid := g.gen(r, depth-1)
			if kid.Kind == XCat {
				c.Kids = append(c.Kids, kid.Kids...)
			} else {
				c.Kids = append(c.Kids, kid)
			}
		}
		// adjacent literals would be one literal in the text
		return c
	}
}
