//go:build !race

package harness

const raceEnabled = false
