package harness

import (
	"os"
	"runtime"
	"runtime/debug"
	"strconv"
	"syscall"
)

// applyLimits makes runaway recursion and allocation inside the library under
// test die quickly inside the worker instead of loading the sandbox.
func applyLimits(c Check) {
	debug.SetMaxStack(64 << 20)
	procs := 2
	if rb, ok := c.(RaceBuilt); ok && rb.NeedsRace() {
		procs = 8
	}
	if v, err := strconv.Atoi(os.Getenv("VERIF_GOMAXPROCS")); err == nil && v > 0 {
		procs = v
	}
	runtime.GOMAXPROCS(procs)
	if !raceEnabled {
		lim := syscall.Rlimit{Cur: 4 << 30, Max: 4 << 30}
		syscall.Setrlimit(syscall.RLIMIT_AS, &lim)
		debug.SetMemoryLimit(3 << 30)
	}
}
