package harness

import (
	"bufio"
	"bytes"
	"encoding/json"
	"fmt"
	"hash/fnv"
	"os"
	"os/exec"
	"path/filepath"
	"runtime"
	"sort"
	"strconv"
	"strings"
	"sync"
	"sync/atomic"
	"syscall"
	"time"
)

// Root is the /verif directory (directory containing known_findings.txt).
var Root = "/verif"

type knownFinding struct {
	Property string
	Sig      string
	What     string
}

func loadKnown(id string) map[string]knownFinding {
	out := map[string]knownFinding{}
	b, err := os.ReadFile(filepath.Join(Root, "known_findings.txt"))
	if err != nil {
		return out
	}
	for _, line := range strings.Split(string(b), "\n") {
		line = strings.TrimSpace(line)
		if !strings.HasPrefix(line, "open:") {
			continue // "fixed:" lines and comments suppress nothing
		}
		f := strings.Fields(strings.TrimPrefix(line, "open:"))
		if len(f) < 2 || !strings.HasPrefix(f[0], "property=") || !strings.HasPrefix(f[1], "sig=") {
			continue
		}
		p := strings.TrimPrefix(f[0], "property=")
		if p != id {
			continue
		}
		sig := strings.TrimPrefix(f[1], "sig=")
		out[sig] = knownFinding{Property: p, Sig: sig, What: strings.Join(f[2:], " ")}
	}
	return out
}

type batchOutcome struct {
	results  []Result
	crashes  []crash // cases at which a worker died
	hangs    []int   // cases at which a worker stalled
	workerMs int64
}

type crash struct {
	idx    int
	stderr string
}

type supervisor struct {
	check      Check
	id         string
	tier       string
	seed       int64
	exe        string
	workdir    string
	stall      time.Duration
	deaths     int64 // worker deaths and stalls so far (all batches)
	freshCases int64 // cases with a violation not listed in known_findings.txt
	known      map[string]knownFinding
}

// maxDeaths: after this many worker deaths/stalls the remaining batches are
// skipped; the run reports what it has (it cannot pass: cases are missing).
const maxDeaths = 24

func env(name, def string) string {
	if v := os.Getenv(name); v != "" {
		return v
	}
	return def
}

// Supervise runs the whole check and returns the process exit code.
func Supervise(id, tier string, seed int64) int {
	c := Get(id)
	if c == nil {
		fmt.Fprintf(os.Stderr, "unknown check %s (have %v)\n", id, IDs())
		return 2
	}
	start := time.Now()
	exe, _ := os.Executable()
	s := &supervisor{check: c, id: id, tier: tier, seed: seed, exe: exe,
		workdir: filepath.Join(Root, "work", id+os.Getenv("VERIF_WORKDIR_SUFFIX")), stall: 30 * time.Second}
	s.known = loadKnown(id)
	if rb, ok := c.(RaceBuilt); ok && rb.NeedsRace() {
		s.stall = 120 * time.Second
	}
	if st, ok := c.(Staller); ok {
		s.stall = time.Duration(st.StallSeconds()) * time.Second
	}
	os.RemoveAll(s.workdir)
	if err := os.MkdirAll(s.workdir, 0o755); err != nil {
		fmt.Fprintln(os.Stderr, err)
		return 2
	}
	n := c.Cases(tier)
	workers := runtime.NumCPU()
	if workers > 16 {
		workers = 16
	}
	if w, err := strconv.Atoi(env("VERIF_WORKERS", "")); err == nil && w > 0 {
		workers = w
	}
	bs := (n + workers*6 - 1) / (workers * 6)
	if bs < 1 {
		bs = 1
	}
	if bs > 5000 {
		bs = 5000
	}
	type job struct{ lo, hi int }
	jobs := make(chan job, n/bs+2)
	for lo := 0; lo < n; lo += bs {
		hi := lo + bs
		if hi > n {
			hi = n
		}
		jobs <- job{lo, hi}
	}
	close(jobs)

	var mu sync.Mutex
	agg := newAgg()
	var wg sync.WaitGroup
	for w := 0; w < workers; w++ {
		wg.Add(1)
		go func(w int) {
			defer wg.Done()
			for j := range jobs {
				if atomic.LoadInt64(&s.deaths) > maxDeaths {
					continue // circuit breaker: the tree dies (almost) everywhere
				}
				if atomic.LoadInt64(&s.freshCases) > 60 {
					continue // fail fast: more than enough fresh violations, the run is lost anyway
				}
				out := s.runRange(j.lo, j.hi, fmt.Sprintf("w%d", w))
				for _, r := range out.results {
					for _, v := range r.Violations {
						if _, ok := s.known[v.Sig]; !ok {
							atomic.AddInt64(&s.freshCases, 1)
							break
						}
					}
				}
				mu.Lock()
				agg.add(out)
				mu.Unlock()
			}
		}(w)
	}
	wg.Wait()

	if atomic.LoadInt64(&s.deaths) > maxDeaths {
		agg.inconclusive = append(agg.inconclusive, fmt.Sprintf("more than %d worker deaths/stalls: remaining batches skipped", maxDeaths))
	}
	// confirm crashes and hangs alone
	hangViol := false
	if h, ok := c.(HangIsViolation); ok {
		hangViol = h.HangIsViolation()
	}
	sort.Slice(agg.crashes, func(i, j int) bool { return agg.crashes[i].idx < agg.crashes[j].idx })
	for k, cr := range agg.crashes {
		if k >= 4 {
			agg.inconclusive = append(agg.inconclusive, fmt.Sprintf("%d further worker deaths not re-run", len(agg.crashes)-k))
			break
		}
		out := s.runRangeOnce(cr.idx, cr.idx+1, "confirm", 6*s.stall)
		if len(out.crashes) > 0 {
			msg := fatalSummary(out.crashes[0].stderr)
			agg.viols = append(agg.viols, violAt{cr.idx, Violation{Sig: "fatal:" + fatalClass(out.crashes[0].stderr),
				Detail: fmt.Sprintf("worker process died executing case %d (confirmed when re-run alone): %s", cr.idx, msg)}})
		} else if len(out.hangs) > 0 {
			agg.hangs = append(agg.hangs, cr.idx)
		} else {
			agg.addResults(out.results)
			agg.inconclusive = append(agg.inconclusive, fmt.Sprintf("worker died at case %d in a batch but the case passed when re-run alone: %s", cr.idx, fatalSummary(cr.stderr)))
		}
	}
	sort.Ints(agg.hangs)
	confirmedHangs := 0
	for k, idx := range agg.hangs {
		// stalls that pass alone are all re-run (a loaded machine may produce
		// several; their cases must not go missing); once two stalls have
		// been confirmed alone the tree hangs for real and the verdict is
		// settled, the remaining ones are not worth minutes each
		if k >= 12 || confirmedHangs >= 2 {
			agg.inconclusive = append(agg.inconclusive, fmt.Sprintf("%d further stalls not re-run", len(agg.hangs)-k))
			break
		}
		out := s.runRangeOnce(idx, idx+1, "confirm", 6*s.stall)
		if len(out.hangs) > 0 {
			confirmedHangs++
			if hangViol {
				agg.viols = append(agg.viols, violAt{idx, Violation{Sig: "hang", Detail: fmt.Sprintf("case %d made no progress for %v twice (alone, 6x allowance)", idx, 6*s.stall)}})
			} else {
				agg.inconclusive = append(agg.inconclusive, fmt.Sprintf("case %d stalled twice; watchdog expiry is inconclusive for this property", idx))
			}
		} else if len(out.crashes) > 0 {
			agg.viols = append(agg.viols, violAt{idx, Violation{Sig: "fatal:" + fatalClass(out.crashes[0].stderr),
				Detail: fmt.Sprintf("worker process died executing case %d: %s", idx, fatalSummary(out.crashes[0].stderr))}})
		} else {
			agg.addResults(out.results)
			agg.inconclusive = append(agg.inconclusive, fmt.Sprintf("case %d stalled once in a batch, passed alone", idx))
		}
	}

	return s.finish(agg, n, time.Since(start))
}

type violAt struct {
	idx int
	v   Violation
}

type agg struct {
	evals        int64
	cases        int
	keys         map[uint64]struct{}
	events       map[string]int64
	sets         map[string]map[string]struct{}
	viols        []violAt
	violCount    map[string]int
	crashes      []crash
	hangs        []int
	inconclusive []string
	samples      []interface{}
}

func newAgg() *agg {
	return &agg{keys: map[uint64]struct{}{}, events: map[string]int64{}, sets: map[string]map[string]struct{}{}, violCount: map[string]int{}}
}

func (a *agg) add(o batchOutcome) {
	a.addResults(o.results)
	a.crashes = append(a.crashes, o.crashes...)
	a.hangs = append(a.hangs, o.hangs...)
}

func (a *agg) addResults(rs []Result) {
	for _, r := range rs {
		a.cases++
		a.evals += int64(r.Evals)
		for _, k := range r.Keys {
			h := fnv.New64a()
			h.Write([]byte(k))
			a.keys[h.Sum64()] = struct{}{}
		}
		for k, v := range r.Events {
			a.events[k] += v
		}
		for n, l := range r.Sets {
			s := a.sets[n]
			if s == nil {
				s = map[string]struct{}{}
				a.sets[n] = s
			}
			for _, v := range l {
				if len(s) < 100000 {
					s[v] = struct{}{}
				}
			}
		}
		for _, v := range r.Violations {
			a.violCount[v.Sig]++
			if a.violCount[v.Sig] <= 50 {
				a.viols = append(a.viols, violAt{r.Index, v})
			}
		}
		for _, s := range r.Inconclusive {
			if len(a.inconclusive) < 50 {
				a.inconclusive = append(a.inconclusive, fmt.Sprintf("case %d: %s", r.Index, s))
			} else {
				a.events["inconclusive_not_listed"]++
			}
		}
		if r.Sample != nil && len(a.samples) < 4 {
			a.samples = append(a.samples, map[string]interface{}{"case": r.Index, "what": r.Sample})
		}
	}
}

func fatalClass(stderr string) string {
	for _, line := range strings.Split(stderr, "\n") {
		l := strings.TrimSpace(line)
		switch {
		case strings.Contains(l, "stack overflow") || strings.Contains(l, "stack exceeds"):
			return "stack-overflow"
		case strings.Contains(l, "out of memory") || strings.Contains(l, "cannot allocate memory"):
			return "out-of-memory"
		case strings.HasPrefix(l, "fatal error:"):
			return strings.ReplaceAll(strings.TrimSpace(strings.TrimPrefix(l, "fatal error:")), " ", "-")
		case strings.HasPrefix(l, "panic:"):
			return "panic"
		case strings.Contains(l, "WARNING: DATA RACE"):
			return "data-race"
		}
	}
	return "unknown"
}

func fatalSummary(stderr string) string {
	lines := strings.Split(stderr, "\n")
	var keep []string
	for _, l := range lines {
		if strings.TrimSpace(l) == "" {
			continue
		}
		keep = append(keep, l)
		if len(keep) >= 14 {
			break
		}
	}
	return strings.Join(keep, " | ")
}

// runRange runs [lo,hi), restarting after a crashing/hanging case.
func (s *supervisor) runRange(lo, hi int, tag string) batchOutcome {
	var total batchOutcome
	for lo < hi {
		out := s.runRangeOnce(lo, hi, tag, s.stall)
		total.results = append(total.results, out.results...)
		total.crashes = append(total.crashes, out.crashes...)
		total.hangs = append(total.hangs, out.hangs...)
		next := hi
		if len(out.crashes) > 0 {
			next = out.crashes[0].idx + 1
			atomic.AddInt64(&s.deaths, 1)
		} else if len(out.hangs) > 0 {
			next = out.hangs[0] + 1
			atomic.AddInt64(&s.deaths, 1)
		}
		if atomic.LoadInt64(&s.deaths) > maxDeaths {
			break
		}
		if next <= lo { // defensive
			next = lo + 1
		}
		lo = next
		if len(total.crashes)+len(total.hangs) > 40 {
			// give up on this range, do not loop forever on a tree that dies everywhere
			break
		}
	}
	return total
}

func (s *supervisor) runRangeOnce(lo, hi int, tag string, stall time.Duration) batchOutcome {
	base := filepath.Join(s.workdir, fmt.Sprintf("%s-%d-%d", tag, lo, hi))
	journal, outp, errp := base+".journal", base+".out", base+".err"
	os.Remove(journal)
	os.Remove(outp)
	cmd := exec.Command(s.exe, "worker", s.id, s.tier, strconv.FormatInt(s.seed, 10), strconv.Itoa(lo), strconv.Itoa(hi), journal, outp)
	ef, _ := os.Create(errp)
	cmd.Stdout = ef
	cmd.Stderr = ef
	cmd.Env = append(os.Environ(), "GOTRACEBACK=all")
	if rb, ok := s.check.(RaceBuilt); ok && rb.NeedsRace() {
		// race reports do not stop the worker; they go to <workdir>/race.<pid>,
		// where the check itself counts them per case (exit codes are not trusted)
		cmd.Env = append(cmd.Env, "GORACE=halt_on_error=0 exitcode=0 log_path="+filepath.Join(s.workdir, "race"))
	}
	cmd.SysProcAttr = &syscall.SysProcAttr{Pdeathsig: syscall.SIGKILL} // no orphans if the supervisor is killed
	if err := cmd.Start(); err != nil {
		ef.Close()
		return batchOutcome{crashes: []crash{{lo, "cannot start worker: " + err.Error()}}}
	}
	done := make(chan error, 1)
	go func() { done <- cmd.Wait() }()
	var lastSize int64 = -1
	lastChange := time.Now()
	lastCPU := procCPU(cmd.Process.Pid)
	hung := false
	var werr error
loop:
	for {
		select {
		case werr = <-done:
			break loop
		case <-time.After(250 * time.Millisecond):
			if fi, err := os.Stat(journal); err == nil && fi.Size() != lastSize {
				lastSize = fi.Size()
				lastChange = time.Now()
				lastCPU = procCPU(cmd.Process.Pid)
			} else if stalled(cmd.Process.Pid, lastCPU, lastChange, stall) {
				hung = true
				cmd.Process.Signal(syscall.SIGQUIT)
				select {
				case werr = <-done:
				case <-time.After(10 * time.Second):
					cmd.Process.Kill()
					werr = <-done
				}
				break loop
			}
		}
	}
	ef.Close()
	var out batchOutcome
	out.results = readResults(outp)
	started, finished, ended := readJournal(journal)
	if hung {
		idx := lo
		if started >= 0 {
			idx = started
		}
		out.hangs = append(out.hangs, idx)
		return out
	}
	if werr != nil || !ended {
		idx := lo
		if started >= 0 && started != finished {
			idx = started
		} else if finished >= 0 {
			idx = finished + 1 // died between cases: blame the next one
			if idx >= hi {
				idx = hi - 1
			}
		}
		b, _ := os.ReadFile(errp)
		if len(b) > 64*1024 {
			b = append(b[:16*1024], b[len(b)-8*1024:]...)
		}
		out.crashes = append(out.crashes, crash{idx, string(b)})
		return out
	}
	os.Remove(journal)
	os.Remove(outp)
	os.Remove(errp)
	return out
}

// procCPU returns the CPU time (user+system, all threads) the process has
// consumed so far, or -1 if it cannot be read.
func procCPU(pid int) time.Duration {
	b, err := os.ReadFile(fmt.Sprintf("/proc/%d/stat", pid))
	if err != nil {
		return -1
	}
	// the command name (field 2) may contain spaces: fields are counted behind ')'
	i := bytes.LastIndexByte(b, ')')
	if i < 0 {
		return -1
	}
	f := strings.Fields(string(b[i+1:]))
	if len(f) < 13 {
		return -1
	}
	ut, err1 := strconv.ParseInt(f[11], 10, 64) // utime, field 14
	st, err2 := strconv.ParseInt(f[12], 10, 64) // stime, field 15
	if err1 != nil || err2 != nil {
		return -1
	}
	return time.Duration(ut+st) * (time.Second / 100) // USER_HZ = 100
}

// stalled decides whether a worker that has not finished a case since
// lastChange is stuck. On a loaded machine a worker may simply not get the
// processor: the allowance is counted in CPU time the worker has CONSUMED
// since the last finished case (a case that spins is caught after `stall` of
// work, however slowly the wall clock lets it do that work). A worker that
// consumes nothing (deadlock, sleep) is caught by a ten times larger wall
// clock allowance.
func stalled(pid int, lastCPU time.Duration, lastChange time.Time, stall time.Duration) bool {
	wall := time.Since(lastChange)
	if wall <= stall {
		return false
	}
	now := procCPU(pid)
	if now < 0 || lastCPU < 0 {
		return true // no CPU accounting: the wall clock allowance it is
	}
	return now-lastCPU > stall || wall > 10*stall
}

func readResults(p string) []Result {
	f, err := os.Open(p)
	if err != nil {
		return nil
	}
	defer f.Close()
	var rs []Result
	sc := bufio.NewScanner(f)
	sc.Buffer(make([]byte, 1<<20), 64<<20)
	for sc.Scan() {
		var r Result
		if json.Unmarshal(sc.Bytes(), &r) == nil {
			rs = append(rs, r)
		}
	}
	return rs
}

func readJournal(p string) (started, finished int, ended bool) {
	started, finished = -1, -1
	b, err := os.ReadFile(p)
	if err != nil {
		return
	}
	for _, l := range bytes.Split(b, []byte("\n")) {
		if len(l) < 1 {
			continue
		}
		switch l[0] {
		case 'S':
			started, _ = strconv.Atoi(string(l[2:]))
		case 'D':
			finished, _ = strconv.Atoi(string(l[2:]))
		case 'E':
			ended = true
		}
	}
	return
}

func (s *supervisor) finish(a *agg, n int, wall time.Duration) int {
	known := s.known
	knownHits := map[string]int{}
	knownFirst := map[string]string{}
	var fresh []violAt
	for _, v := range a.viols {
		if _, ok := known[v.v.Sig]; ok {
			knownHits[v.v.Sig]++
			if _, seen := knownFirst[v.v.Sig]; !seen {
				knownFirst[v.v.Sig] = v.v.Detail
			}
			continue
		}
		fresh = append(fresh, v)
	}
	for sig := range known {
		if c := a.violCount[sig]; c > knownHits[sig] {
			knownHits[sig] = c
		}
	}
	sort.SliceStable(fresh, func(i, j int) bool { return fresh[i].idx < fresh[j].idx })

	fmt.Printf("check %s tier=%s seed=%d cases=%d/%d evaluations=%d distinct_nontrivial=%d wall=%.1fs\n",
		s.id, s.tier, s.seed, a.cases, n, a.evals, len(a.keys), wall.Seconds())
	evk := make([]string, 0, len(a.events))
	for k := range a.events {
		evk = append(evk, k)
	}
	sort.Strings(evk)
	for _, k := range evk {
		fmt.Printf("  monitor %-40s %d\n", k, a.events[k])
	}
	setk := make([]string, 0, len(a.sets))
	for k := range a.sets {
		setk = append(setk, k)
	}
	sort.Strings(setk)
	for _, k := range setk {
		fmt.Printf("  distinct %-39s %d\n", k, len(a.sets[k]))
	}
	for _, inc := range a.inconclusive {
		fmt.Printf("INCONCLUSIVE: property=%s %s\n", s.id, inc)
	}
	sigs := make([]string, 0, len(knownHits))
	for sig := range knownHits {
		sigs = append(sigs, sig)
	}
	sort.Strings(sigs)
	for _, sig := range sigs {
		if knownHits[sig] == 0 {
			continue
		}
		fmt.Printf("KNOWN-FINDING: property=%s %s: %s (reproduced %d times; e.g. %s)\n", s.id, sig, known[sig].What, knownHits[sig], firstLine(knownFirst[sig], 300))
	}
	exit := 0
	replayDir := filepath.Join(Root, "replays", s.id)
	seenSig := map[string]int{}
	for _, v := range fresh {
		seenSig[v.v.Sig]++
		if seenSig[v.v.Sig] > 3 {
			continue
		}
		os.MkdirAll(replayDir, 0o755)
		rp := filepath.Join(replayDir, fmt.Sprintf("%s-%s-seed%d-case%d.json", s.id, s.tier, s.seed, v.idx))
		rb, _ := json.MarshalIndent(map[string]interface{}{"property": s.id, "tier": s.tier, "seed": s.seed, "index": v.idx, "sig": v.v.Sig, "detail": v.v.Detail}, "", " ")
		os.WriteFile(rp, rb, 0o644)
		fmt.Printf("VIOLATION property=%s replay=%s\n", s.id, rp)
		fmt.Printf("  sig=%s (x%d) %s\n", v.v.Sig, a.violCount[v.v.Sig]+boolInt(a.violCount[v.v.Sig] == 0), firstLine(v.v.Detail, 1500))
		exit = 1
	}

	// evidence
	cov := map[string]interface{}{
		"evaluations":               a.evals,
		"distinct_nontrivial":       len(a.keys),
		"rule":                      s.check.Rule(),
		"samples":                   a.samples,
		"cases_planned":             n,
		"cases_completed":           a.cases,
		"monitor_events":            a.events,
		"inconclusive":              len(a.inconclusive) + int(a.events["inconclusive_not_listed"]),
		"inconclusive_notes":        a.inconclusive,
		"known_findings_reproduced": knownHits,
	}
	if ex, ok := s.check.(Exhaustive); ok && ex.Exhaustive(s.tier) {
		cov["exhaustive"] = true
	}
	ds := map[string]interface{}{}
	for k, set := range a.sets {
		var l []string
		for v := range set {
			l = append(l, v)
		}
		sort.Strings(l)
		ent := map[string]interface{}{"count": len(l)}
		if len(l) > 12 {
			l = l[:12]
		}
		ent["first"] = l
		ds[k] = ent
	}
	cov["monitor_distinct"] = ds
	if len(a.samples) == 0 {
		cov["samples"] = []interface{}{fmt.Sprintf("no sample recorded (cases=%d)", a.cases)}
	}
	ev := map[string]interface{}{
		"property_id": s.id,
		"tier":        s.tier,
		"seed":        s.seed,
		"level":       "exploration",
		"coverage":    cov,
		"assumptions": s.check.Assumptions(),
		"wall_s":      float64(int(wall.Seconds()*10)) / 10,
		"violations":  len(fresh),
	}
	eb, _ := json.MarshalIndent(ev, "", " ")
	os.MkdirAll(filepath.Join(Root, "evidence"), 0o755)
	evName := s.id
	if n := os.Getenv("VERIF_EVIDENCE_NAME"); n != "" {
		evName = n // supplementary passes (e.g. the C09 pass built with another toolchain) keep their own file
	}
	if err := os.WriteFile(filepath.Join(Root, "evidence", evName+".json"), append(eb, '\n'), 0o644); err != nil {
		fmt.Fprintln(os.Stderr, "cannot write evidence:", err)
		return 2
	}
	if exit == 0 && a.cases < n && len(a.crashes)+len(a.hangs) > 0 {
		// workers died but no death could be confirmed alone: cases are missing, the run cannot pass
		fmt.Printf("BROKEN-CHECK: property=%s %d of %d cases did not complete (worker deaths not reproducible alone)\n", s.id, n-a.cases, n)
		return 2
	}
	if exit == 0 && (a.evals == 0 || len(a.keys) < 2 || a.cases < n) {
		fmt.Printf("BROKEN-CHECK: property=%s observed too little (evaluations=%d distinct=%d cases=%d/%d); not passing vacuously\n", s.id, a.evals, len(a.keys), a.cases, n)
		return 2
	}
	if exit == 0 {
		fmt.Printf("OK property=%s held on everything explored (%d known finding signatures reproduced)\n", s.id, len(sigs))
	}
	return exit
}

func boolInt(b bool) int {
	if b {
		return 1
	}
	return 0
}

func firstLine(s string, max int) string {
	s = strings.ReplaceAll(s, "\n", " ⏎ ")
	if len(s) > max {
		s = s[:max] + "..."
	}
	return s
}

// Worker executes cases [lo,hi) in this process.
func Worker(id, tier string, seed int64, lo, hi int, journal, outp string) int {
	c := Get(id)
	if c == nil {
		return 2
	}
	applyLimits(c)
	jf, err := os.OpenFile(journal, os.O_CREATE|os.O_WRONLY|os.O_APPEND, 0o644)
	if err != nil {
		fmt.Fprintln(os.Stderr, err)
		return 2
	}
	of, err := os.OpenFile(outp, os.O_CREATE|os.O_WRONLY|os.O_APPEND, 0o644)
	if err != nil {
		fmt.Fprintln(os.Stderr, err)
		return 2
	}
	known := loadKnown(id)
	freshCases := 0
	for i := lo; i < hi; i++ {
		if freshCases >= 5 {
			// enough witnesses from this batch: on a tree that violates
			// everywhere (and slowly) the run must still end; it cannot pass
			break
		}
		fmt.Fprintf(jf, "S %d\n", i)
		r := runGuarded(c, seed, tier, i)
		for _, v := range r.Violations {
			if _, ok := known[v.Sig]; !ok {
				freshCases++
				break
			}
		}
		b, err := json.Marshal(r)
		if err != nil {
			r.Sample = nil
			b, _ = json.Marshal(r)
		}
		of.Write(append(b, '\n'))
		fmt.Fprintf(jf, "D %d\n", i)
	}
	fmt.Fprintf(jf, "E\n")
	jf.Close()
	of.Close()
	return 0
}

// runGuarded converts a panic escaping a check's Run (which every check tries
// to avoid by wrapping library calls in Safe) into a violation of that case.
func runGuarded(c Check, seed int64, tier string, i int) (r Result) {
	defer func() {
		if rec := recover(); rec != nil {
			r = Result{Index: i, Evals: 1, Violations: []Violation{{Sig: "panic-escaped", Detail: fmt.Sprintf("panic escaped the case runner: %v at %s", rec, ucfgFrames())}}}
		}
	}()
	return c.Run(seed, tier, i, false)
}

// Replay re-executes the case recorded in a replay file, verbosely.
func Replay(path string) int {
	b, err := os.ReadFile(path)
	if err != nil {
		fmt.Fprintln(os.Stderr, err)
		return 2
	}
	var rp struct {
		Property string
		Tier     string
		Seed     int64
		Index    int
	}
	if err := json.Unmarshal(b, &rp); err != nil {
		fmt.Fprintln(os.Stderr, err)
		return 2
	}
	c := Get(rp.Property)
	if c == nil {
		return 2
	}
	applyLimits(c)
	r := c.Run(rp.Seed, rp.Tier, rp.Index, true)
	known := loadKnown(rp.Property)
	exit := 0
	for _, v := range r.Violations {
		if _, ok := known[v.Sig]; ok {
			fmt.Printf("KNOWN-FINDING: property=%s %s: %s\n", rp.Property, v.Sig, v.Detail)
			continue
		}
		fmt.Printf("VIOLATION property=%s replay=%s\n  sig=%s %s\n", rp.Property, path, v.Sig, v.Detail)
		exit = 1
	}
	if exit == 0 {
		fmt.Printf("replay of %s case %d: no new violation (evals=%d)\n", rp.Property, rp.Index, r.Evals)
	}
	return exit
}
