// Package harness is the supervisor/worker machinery shared by all checks.
//
// A check is a deterministic function (seed, tier, index) -> Result. The
// supervisor cuts the index range into batches, runs every batch in a child
// process (the same binary in worker mode) so that fatal runtime errors, stack
// overflows, runaway allocations and hangs inside the library under test kill
// a child and not the monitor, journals every case before it is executed, and
// aggregates the results into a verdict and an evidence file.
package harness

import (
	"fmt"
	"runtime"
	"sort"
	"strings"
)

// Violation is one observed deviation from a property.
type Violation struct {
	// Sig is the signature computed by the check's classifier. It identifies
	// the specific failing input class / call site / history shape, and is
	// what known_findings.txt entries are matched against.
	Sig string `json:"sig"`
	// Detail is the human readable witness (inputs, expected, observed).
	Detail string `json:"detail"`
}

// Result is what running one case produced.
type Result struct {
	Index        int                 `json:"i"`
	Evals        int                 `json:"evals"`
	Keys         []string            `json:"keys,omitempty"` // distinct non-trivial case keys
	Violations   []Violation         `json:"viol,omitempty"`
	Events       map[string]int64    `json:"ev,omitempty"`   // monitor counters
	Sets         map[string][]string `json:"sets,omitempty"` // monitor distinct-value sets (bounded)
	Inconclusive []string            `json:"inc,omitempty"`
	Sample       interface{}         `json:"sample,omitempty"`
}

// R is a small helper for building a Result inside a check.
type R struct {
	Result
	keyset map[string]struct{}
	sets   map[string]map[string]struct{}
}

func NewR(idx int) *R {
	return &R{Result: Result{Index: idx, Events: map[string]int64{}}, keyset: map[string]struct{}{}, sets: map[string]map[string]struct{}{}}
}

func (r *R) Eval(n int) { r.Evals += n }

// Key records a distinct non-trivial case key (any string; hashed by caller or not).
func (r *R) Key(k string) {
	if _, ok := r.keyset[k]; !ok {
		r.keyset[k] = struct{}{}
	}
}

func (r *R) Ev(name string, n int64) { r.Events[name] += n }

// SetAdd records a value into a named distinct-value set (capped per case).
func (r *R) SetAdd(name, v string) {
	s := r.sets[name]
	if s == nil {
		s = map[string]struct{}{}
		r.sets[name] = s
	}
	if len(s) < 4096 {
		s[v] = struct{}{}
	}
}

func (r *R) Violate(sig, format string, a ...interface{}) {
	d := fmt.Sprintf(format, a...)
	if len(d) > 6000 {
		d = d[:6000] + "...(truncated)"
	}
	// keep at most 20 violations per case, and at most 3 per signature
	n := 0
	for _, v := range r.Violations {
		if v.Sig == sig {
			n++
		}
	}
	r.Ev("violations_raw", 1)
	if n >= 3 || len(r.Violations) >= 20 {
		return
	}
	r.Violations = append(r.Violations, Violation{Sig: sig, Detail: d})
}

func (r *R) Inconc(format string, a ...interface{}) {
	if len(r.Inconclusive) < 5 {
		r.Inconclusive = append(r.Inconclusive, fmt.Sprintf(format, a...))
	}
}

func (r *R) Done() Result {
	for k := range r.keyset {
		r.Keys = append(r.Keys, k)
	}
	sort.Strings(r.Keys)
	if len(r.sets) > 0 {
		r.Sets = map[string][]string{}
		for n, s := range r.sets {
			var l []string
			for v := range s {
				l = append(l, v)
			}
			sort.Strings(l)
			r.Sets[n] = l
		}
	}
	return r.Result
}

// Check is implemented by every property check.
type Check interface {
	ID() string
	// Cases returns how many cases the tier has. The count is fixed by the
	// tier, never by a time budget.
	Cases(tier string) int
	// Run executes case idx. It must be deterministic in (seed, tier, idx)
	// except for what the property itself is about (map order, schedules).
	Run(seed int64, tier string, idx int, verbose bool) Result
	// Rule describes generation and the non-triviality rule for the evidence.
	Rule() string
	// Assumptions lists what the oracle trusts.
	Assumptions() []string
}

// Options a check may implement to tune the supervisor.
type RaceBuilt interface{ NeedsRace() bool }

// HangIsViolation: checks for which a confirmed hang is a violation (C07, C08).
type HangIsViolation interface{ HangIsViolation() bool }

// Staller: checks that want another stall allowance than the default 30 s
// (a case that normally costs milliseconds may use a tighter one).
type Staller interface{ StallSeconds() int }

// Exhaustive: checks whose case list enumerates a finite space completely.
type Exhaustive interface{ Exhaustive(tier string) bool }

var registry = map[string]Check{}

func Register(c Check) { registry[c.ID()] = c }

func Get(id string) Check { return registry[id] }

func IDs() []string {
	var ids []string
	for k := range registry {
		ids = append(ids, k)
	}
	sort.Strings(ids)
	return ids
}

// Safe runs f and converts a panic on the calling goroutine into a string.
// The returned stack is reduced to the frames inside go-ucfg.
func Safe(f func()) (panicked bool, val string, where string) {
	defer func() {
		if r := recover(); r != nil {
			panicked = true
			val = fmt.Sprint(r)
			where = ucfgFrames()
		}
	}()
	f()
	return
}

func ucfgFrames() string {
	pcs := make([]uintptr, 64)
	n := runtime.Callers(3, pcs)
	frames := runtime.CallersFrames(pcs[:n])
	var out []string
	for {
		fr, more := frames.Next()
		if strings.Contains(fr.Function, "go-ucfg") {
			fn := fr.Function
			if i := strings.LastIndex(fn, "/"); i >= 0 {
				fn = fn[i+1:]
			}
			out = append(out, fn)
			if len(out) >= 4 {
				break
			}
		}
		if !more {
			break
		}
	}
	return strings.Join(out, "<")
}

// Mix derives a per-case PRNG seed.
func Mix(seed int64, id string, idx int) int64 {
	h := uint64(seed)*0x9E3779B97F4A7C15 + 0x1234567
	for _, c := range []byte(id) {
		h = (h ^ uint64(c)) * 0x100000001B3
	}
	h ^= uint64(idx) + 0x9E3779B97F4A7C15 + (h << 6) + (h >> 2)
	h *= 0xBF58476D1CE4E5B9
	h ^= h >> 31
	return int64(h & 0x7fffffffffffffff)
}
