// Package vx builds library configurations from variable-expansion worlds
// (model.World) and reads settings back in comparable form. Shared by the
// checks C02, C08, C09 and C11.
package vx

import (
	"fmt"
	"math/rand"
	"reflect"
	"sort"
	"strings"
	"sync"

	ucfg "github.com/elastic/go-ucfg"
	"github.com/elastic/go-ucfg/parse"

	"verif/internal/model"
)

var BaseOpts = []ucfg.Option{ucfg.PathSep("."), ucfg.VarExp}

// Built is a world realised as library objects.
type Built struct {
	C      *ucfg.Config
	Opts   []ucfg.Option // read options: PathSep, VarExp, Env..., Resolve...
	mu     sync.Mutex
	ResLog []ResCall // resolver calls in the order they happened
	Merges []string  // description of the merge steps used to build C
}

type ResCall struct {
	Idx  int
	Name string
	Hit  bool
}

func (b *Built) ResetLog() {
	b.mu.Lock()
	b.ResLog = nil
	b.mu.Unlock()
}

func (b *Built) Log() []ResCall {
	b.mu.Lock()
	defer b.mu.Unlock()
	return append([]ResCall{}, b.ResLog...)
}

func goValue(s *model.Setting) interface{} {
	if s.Ex != nil {
		return s.Ex.Render(false)
	}
	if n, ok := s.Val.(*model.Node); ok {
		return n.ToGo()
	}
	return s.Val
}

// nest builds a (possibly nested) map from dotted paths; with flat=true the
// dotted spelling is kept as key (PathSep expands it).
func nest(vals map[string]interface{}, flat bool) map[string]interface{} {
	out := map[string]interface{}{}
	keys := make([]string, 0, len(vals))
	for k := range vals {
		keys = append(keys, k)
	}
	sort.Strings(keys)
	for _, k := range keys {
		v := vals[k]
		if flat || !strings.Contains(k, ".") {
			out[k] = v
			continue
		}
		parts := strings.Split(k, ".")
		m := out
		for _, p := range parts[:len(parts)-1] {
			nm, ok := m[p].(map[string]interface{})
			if !ok {
				nm = map[string]interface{}{}
				m[p] = nm
			}
			m = nm
		}
		m[parts[len(parts)-1]] = v
	}
	return out
}

// Build realises the world. If r != nil the root settings are spread over
// several Merge calls in random order and some names are first defined with
// another value and overwritten later (late binding).
func Build(w *model.World, r *rand.Rand) (*Built, error) {
	b := &Built{}
	names := make([]string, 0, len(w.Root))
	for k := range w.Root {
		names = append(names, k)
	}
	sort.Strings(names)
	c := ucfg.New()
	if r == nil {
		vals := map[string]interface{}{}
		for _, k := range names {
			vals[k] = goValue(w.Root[k])
		}
		if err := c.Merge(nest(vals, false), BaseOpts...); err != nil {
			return nil, err
		}
		b.Merges = append(b.Merges, "single merge")
	} else {
		// the elements of one list always arrive in the same merge (merging a
		// list element by element would pad with nils that override primitives
		// - C01 semantics, not what is under test here): units of names
		isElem := func(k string) bool { return strings.HasPrefix(k, "ls.") }
		var units [][]string
		var elems []string
		for _, k := range names {
			if isElem(k) {
				elems = append(elems, k)
			} else {
				units = append(units, []string{k})
			}
		}
		if len(elems) > 0 {
			units = append(units, elems)
		}
		r.Shuffle(len(units), func(i, j int) { units[i], units[j] = units[j], units[i] })
		// optional first layer of values that get overwritten afterwards
		old := map[string]interface{}{}
		for _, k := range names {
			if _, isNode := w.Root[k].Val.(*model.Node); !isNode && !isElem(k) && r.Intn(3) == 0 {
				old[k] = "old:" + k
			}
		}
		if len(old) > 0 {
			if err := c.Merge(nest(old, r.Intn(2) == 0), BaseOpts...); err != nil {
				return nil, err
			}
			b.Merges = append(b.Merges, fmt.Sprintf("merge old values %v", old))
		}
		for i := 0; i < len(units); {
			n := 1 + r.Intn(len(units)-i)
			vals := map[string]interface{}{}
			var chunk []string
			for _, u := range units[i : i+n] {
				for _, k := range u {
					vals[k] = goValue(w.Root[k])
					chunk = append(chunk, k)
				}
			}
			if err := c.Merge(nest(vals, r.Intn(2) == 0), BaseOpts...); err != nil {
				return nil, err
			}
			b.Merges = append(b.Merges, fmt.Sprintf("merge %v", chunk))
			i += n
		}
	}
	b.C = c
	b.Opts = append([]ucfg.Option{}, BaseOpts...)
	for _, env := range w.Envs {
		em := map[string]interface{}{}
		for k, v := range env {
			em[k] = v
		}
		ec, err := ucfg.NewFrom(nest(em, false), ucfg.PathSep("."))
		if err != nil {
			return nil, err
		}
		b.Opts = append(b.Opts, ucfg.Env(ec))
	}
	for i, res := range w.Ress {
		i, res := i, res
		b.Opts = append(b.Opts, ucfg.Resolve(func(n string) (string, parse.Config, error) {
			v, ok := res[n]
			b.mu.Lock()
			b.ResLog = append(b.ResLog, ResCall{i, n, ok})
			b.mu.Unlock()
			if ok {
				return v, parse.NoopConfig, nil
			}
			return "", parse.NoopConfig, ucfg.ErrMissing
		}))
	}
	return b, nil
}

// RootReasons unwraps nested ucfg.Errors and returns all reasons met.
func RootReasons(err error) []error {
	var out []error
	for i := 0; err != nil && i < 10; i++ {
		e, ok := err.(ucfg.Error)
		if !ok {
			out = append(out, err)
			break
		}
		r := e.Reason()
		out = append(out, r)
		if r == err {
			break
		}
		err = r
	}
	return out
}

// IsCyclicErr: the error is identifiable as a cyclic reference error.
func IsCyclicErr(err error) bool {
	if err == nil {
		return false
	}
	for _, r := range RootReasons(err) {
		if r == ucfg.ErrCyclicReference {
			return true
		}
	}
	// judged by the chain of reasons only, never by the wording of the message
	return false
}

// MentionsMsg: a ${x:?m} failure carries m in its reason or message.
func MentionsMsg(err error, m string) bool {
	if err == nil {
		return false
	}
	if strings.Contains(err.Error(), m) {
		return true
	}
	for _, r := range RootReasons(err) {
		if r != nil && strings.Contains(r.Error(), m) {
			return true
		}
	}
	return false
}

var ifaceT = reflect.TypeOf((*interface{})(nil)).Elem()

// ReadField unpacks only the top-level setting `key` of c into a one-field
// struct whose field has type t (interface{} if t == nil).
func ReadField(c *ucfg.Config, key string, t reflect.Type, opts []ucfg.Option) (interface{}, error) {
	if t == nil {
		t = ifaceT
	}
	st := reflect.StructOf([]reflect.StructField{{Name: "V", Type: t, Tag: reflect.StructTag(fmt.Sprintf(`config:"%s"`, key))}})
	p := reflect.New(st)
	if err := c.Unpack(p.Interface(), opts...); err != nil {
		return nil, err
	}
	return p.Elem().Field(0).Interface(), nil
}

// ExpectText is the value a text takes after the library's documented
// text->value step for splices (parse.Value with the default config; a blank
// text stays a string).
func ExpectText(s string) interface{} {
	v, err := parse.Value(s)
	if err != nil {
		return s
	}
	if v == nil {
		if strings.TrimSpace(s) == "" {
			return s
		}
		return nil
	}
	return v
}

// ParseNeutral: the text->value step is the identity on s.
func ParseNeutral(s string) bool {
	if s == "" {
		return false
	}
	c := s[0]
	if !((c >= 'a' && c <= 'z') || (c >= 'A' && c <= 'Z')) {
		return false
	}
	if strings.ContainsAny(s, ",[]{}:'\" \t\n") {
		return false
	}
	switch s {
	case "t", "T", "true", "TRUE", "True", "on", "ON", "f", "F", "false", "FALSE", "False", "off", "OFF", "null", "nan", "NaN", "inf", "Inf", "infinity", "Infinity":
		return false
	}
	return strings.TrimSpace(s) == s
}
